HOOK_COMMITS = ["d13f88e"]
NOT_YET = {}
TEXT = {
 "C04": {
  "level": "Exploration by runtime monitoring: random operation histories over the public Bitstr API (and the bit-string words through eval) are mirrored on a plain vector of bits; every result is compared through all observers and every live value re-checked after every operation, in release and overflow-checked builds. Gives 'held on K histories covering all 16 ownership classes x 64 alignments', not a proof.",
  "note": "Trusts the harness bit-vector model and BitvecBuilder for constructing inputs (cross-checked by the same observers). Values <= 600 bits, histories <= 90 operations.",
  "technique": "reference-model monitor over random API histories (differential against a bit-vector model), dev+release builds",
 },
}
