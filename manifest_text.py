HOOK_COMMITS = ["d13f88e"]
NOT_YET = {}
TEXT = {
 "C04": {
  "level": "Exploration by runtime monitoring: random operation histories over the public Bitstr API (and the bit-string words through eval) are mirrored on a plain vector of bits; every result is compared through all observers and every live value re-checked after every operation, in release and overflow-checked builds. Gives 'held on K histories covering all 16 ownership classes x 64 alignments', not a proof.",
  "note": "Trusts the harness bit-vector model and BitvecBuilder for constructing inputs (cross-checked by the same observers). Values <= 600 bits, histories <= 90 operations.",
  "technique": "reference-model monitor over random API histories (differential against a bit-vector model), dev+release builds",
 },
 "C05": {
  "level": "Exploration with the (width, byte order, signedness, bit offset) grid enumerated completely on every run and values sampled: pack/unpack at API and language level against independent two's-complement arithmetic, std byte layouts and the harness's own bit packer, in release and overflow-checked builds.",
  "note": "Trusts the harness layout function (little-endian defined on the value's 8-bit groups) and f32/f64::to_bits. Values per cell are sampled (~210 per round).",
  "technique": "grid-enumerating differential monitor against an exact-arithmetic codec oracle, dev+release builds",
 },
 "C09": {
  "level": "Exploration: every listed word is run on boundary/random operand tuples of every type combination and the outcome (value, wrap-or-overflow, division error, type-error payload) is compared with an exact oracle (checked i128, u128 wrap, own int->real and round implementations), in release and overflow-checked builds.",
  "note": "Main shard trusts Rust f64 + - * / % as the IEEE reference for the real path; the shard pyvec takes every expected result from Python's unbounded integers and doubles instead. NaN is not fed to comparisons.",
  "technique": "differential monitor against an exact-arithmetic oracle over boundary-value operand tuples",
 },
 "C18": {
  "level": "Exploration with every length 0..300 covered in every run: encode through the real words from all input forms (incl. unaligned bit-strings), compare with independent reference encoders (RFC 4648 base32/base64, Crockford base32, Z85 with the crate's tail scheme), decode back, and feed mutated / arbitrary text to the decoders.",
  "note": "Trusts the harness reference encoders. Invalid-text oracle only demands nil when a character outside alphabet+padding is present.",
  "technique": "round-trip + reference-encoder differential monitor over all lengths and input forms",
 },
 "C01": {
  "level": "Exploration: random programs over the whole control-flow grammar (all 8x8 construct nestings, empty bodies, zero-trip loops, recursion, redefinition, locals) are run through eval() and compared with an independent AST interpreter on stack, variables, output, error class and failing token; structurally infinite loops must still be running when the instruction budget ends. Release and overflow-checked builds.",
  "note": "Trusts the reference evaluator (harness/src/g1.rs). Program size <= 200 nodes, nesting <= 8, 30000 reference steps.",
  "technique": "differential monitor: real bytecode VM vs. direct structural (AST) evaluator over generated programs, with delta-debugging of witnesses",
 },
 "C15": {
  "level": "Exploration: generated programs (control-flow grammar and typed word soup over the whole dictionary, failing programs included) are driven six ways - eval, compile+run, compile+single-step, each with reverse recording off and on - from identical interpreters and every observation the statement lists (result/error, stack, variables, output) must agree.",
  "note": "Self-consistency oracle (no reference semantics needed). All runs carry an instruction budget; programs stopped by it are compared too. A drive mode that does not stop within 40 CPU-seconds is reported as disagreeing (hang).",
  "technique": "six-way twin-execution monitor (drive mode x recording) over generated programs",
 },
 "C02": {
  "level": "Exploration: generated programs over the full instruction repertoire are single-stepped with recording on while the dump hook records every state; a seeded rnext/next walk, a full rewind and a full replay must reproduce the recorded dump (ip, data stack, frames with locals, loop records, builder marks, all variables) at every position.",
  "note": "Self-consistency oracle over the verif_dump hook; histories <= 400 steps; every ReverseStep variant and every emitted opcode must be observed or the run is inconclusive.",
  "technique": "recorded-history monitor: dump after every step, checked against itself under random rewind/replay walks",
 },
 "C03": {
  "level": "Exploration: clone-tree histories (clone of clone, drops, stepping and reverse-stepping one copy while others rest) over sources that share storage and then mutate it; after every operation every copy and snapshot that was not operated on must render bit-identically, and the operations executed after each clone point are replayed on the pristine snapshot and must reproduce every observation and the final state. Includes the c_api snapshot functions and (separately) the REPL's canvas plugin.",
  "note": "Trusts the harness rendering (every cell rendered structurally, bit-strings bit by bit through the public iterator). The REPL binary itself is not driven; its snapshot/rollback are State::clone, which is what is monitored.",
  "technique": "history monitor: immutability of untouched copies after every operation + replay of the post-clone suffix on the snapshot (twin execution)",
 },
 "C14": {
  "level": "Exploration with the limit values enumerated around each program's need: for generated programs every instruction / stack / heap limit around the program's exact need (and all small values) is tried in step mode (own instruction counter, dump hook after every step) and in run mode; bounds are never exceeded, the boundary is exact (need accepted, need-1 refused, shifted exactly by pre-existing items, also inside build-time meta blocks), hitting a limit makes no further progress, and after raising the limit execution reaches the unconstrained twin's result.",
  "note": "Trusts the verif_dump hook for stack/heap sizes and the monitor's own counting of successful next() calls. Programs <= 1500 instructions.",
  "technique": "invariant-at-hook monitor + boundary sweep against an unconstrained twin + metamorphic boundary shift + recovery probes",
 },
 "C12": {
  "level": "Exploration: random operation sequences over maps, vectors and strings with keys/elements of every type and hostile indexes are run word by word through eval and compared with an association-list / sequence model; older values are re-checked for value semantics. Maps whose keys have different types are exercised separately (known finding).",
  "note": "Trusts the harness model (structural equality that never equates values of different types; clamp semantics of slice as pinned by the suite). Collections <= ~60 elements.",
  "technique": "reference-model monitor (association list / sequence) over random operation histories, with re-checks of every live value",
 },
 "C13": {
  "level": "Exploration: every eligible dictionary word (166) is run on untagged and tagged copies of the same arguments (tags at any depth, tags on tags, formatting tag) and must behave the same modulo tags; results may only carry tags that were moved from an input; the tag words are checked against an attached-map model.",
  "note": "Metamorphic oracle (no reference semantics needed); three arguments per word from 13 value classes, so words of arity > 3 only see their type-error paths.",
  "technique": "metamorphic twin-execution monitor (tagged vs untagged arguments) over the whole dictionary + model-based monitor for the tag words",
 },
 "C10": {
  "level": "Exploration: interpreter histories with a source that is rejected at build time (any combination of unclosed structures, 28 kinds of failing token, trailing text with side effects) are compared probe by probe with a twin that never saw the rejected source; the dump hook must show the interpreter unchanged by the rejection; sources failing at run time must never run again. Both submission styles, plus sessions typed into the real REPL binary.",
  "note": "Twin is rebuilt by replaying the history in a fresh interpreter (does not rely on clone). Error texts are compared without source names.",
  "technique": "twin-execution monitor (history with vs without the rejected source) + invariant at the dump hook + REPL sessions over stdin",
 },
 "C11": {
  "level": "Exploration: programs with a meta block at every position are compared with the same program where the block is replaced by the literal value(s) its expression yields under ordinary evaluation; blocks that try to touch the surrounding stack or variables must be rejected; the dump hook shows that compile() runs nothing outside blocks and that a closed block leaves only its results (as code) and its constants behind.",
  "note": "Metamorphic oracle: the value of e is taken from ordinary evaluation of the same expression in a scratch interpreter (trusts that ordinary evaluation of arithmetic/stack/collection words is right - C01/C09/C12 check that).",
  "technique": "metamorphic twin-execution monitor (block vs inlined literal) + sealing probes + invariants at the dump hook",
 },
 "C16": {
  "level": "Exploration: hostile texts are tokenised with Lex::next under a call budget; token texts must tile the input, and kind, extent and value of every token are compared with an independent implementation of the documented literal grammar (reals against Python's float() on per-run reference vectors); printed integers, bit-strings and collections are read back and must be equal.",
  "note": "Trusts the harness's reading of the grammar (written from README/tests, adjusted only where the suite pins a quirk) and Python's correctly rounded float().",
  "technique": "differential monitor against an independent lexical specification + tiling/progress invariants + print/read round trip",
 },
 "C17": {
  "level": "Exploration: failing programs are generated with exactly one planted failing token whose source, byte offset, line, column and line text the generator knows by construction; the reported location must match in 14 scenarios (call chains, loops, meta blocks, included files, injected text, repeated identical sources, several sources per interpreter) under LF/CRLF/tab/multi-byte filler, at build time and at run time.",
  "note": "Oracle is the generator's own bookkeeping; source names are predicted from the monitor's count of interned sources (read through the dump hook before each submission).",
  "technique": "planted-failure monitor: generator bookkeeping vs last_err_location()/pretty_error(), plus debug-map/code length invariant at the hook",
 },
 "C06": {
  "level": "Exploration: random sequences of every parsing word with hostile size arguments (incl. values around 2^32, 2^61, 2^63, 2^64 and the i128 limits) and nested open/close are mirrored on a cursor model; offset, remain, input, returned values and the data stack are compared after every word, and a refused word must move nothing. Release and overflow-checked builds.",
  "note": "Trusts the harness cursor model and its number decoders (little-endian on the value's 8-bit groups, as C05). Inputs <= 199 bits, nesting <= 12.",
  "technique": "reference-model monitor (cursor stack + decoders) over random word histories with boundary-value size arguments",
 },
 "C07": {
  "level": "Exploration: random records of typed fields (every integer width 1..128, both byte orders and signednesses, floats, raw bit-strings, strings, byte lists, nested vectors, fields starting at every bit alignment) are packed with >bitstr, compared bit for bit with the harness's own layout, parsed back to the original values with remain = 0, and re-emitted split over several emit calls with output and output-length checked. Release and overflow-checked builds.",
  "note": "Trusts the harness layout function (shared with C05) and UTF-8 encoding of strings. Records <= 24 fields / ~1500 bits.",
  "technique": "round-trip + independent-layout differential monitor over generated field lists",
 },
 "C08": {
  "level": "Exploration: every dictionary word on every combination of argument classes up to arity 3, and hostile token soups on fresh and long-lived interpreters, are driven through eval / compile / run / step / reverse-step / error formatting / value formatting; each call runs under catch_unwind inside a worker whose exit status the driver watches, in release and overflow-checked builds, recording on and off. The thorough tier repeats a sample under valgrind memcheck and Miri.",
  "note": "Binary oracle (returned vs did not return). Out-of-memory aborts are classified as immodest allocations and excluded, as the statement does. A clean sanitizer run means 'no report on these executions', not memory safety.",
  "technique": "process-level trap monitor (catch_unwind + panic hook in the worker, exit status / signal in the parent) over hostile workloads; memcheck and Miri in the thorough tier",
 },
}
