"""Per-property plans: jobs (mode, profile, cases) per tier, evidence rule text, minimum-observation requirements.

A requirement returns None when satisfied or a message; an unmet requirement makes the run INCONCLUSIVE (exit 2),
never a violation."""


def need(counter, minimum):
    def f(counters, sets, maxes, cases, shapes, tier):
        if counters.get(counter, 0) < minimum:
            return "observed too little: counter %s = %d < %d" % (counter, counters.get(counter, 0), minimum)
    return f


def need_set(name, minimum):
    def f(counters, sets, maxes, cases, shapes, tier):
        if len(sets.get(name, ())) < minimum:
            return "observed too little: set %s has %d < %d members" % (name, len(sets.get(name, ())), minimum)
    return f


def need_members(name, members):
    def f(counters, sets, maxes, cases, shapes, tier):
        missing = [m for m in members if m not in sets.get(name, ())]
        if missing:
            return "never observed in %s: %s" % (name, ", ".join(missing[:12]))
    return f


import stages

PLANS = {}

PLANS["C04"] = {
    "stages": {"quick": [stages.memcheck_stage("C04", "", 3200, 160000)], "thorough": [stages.memcheck_stage("C04", "", 3200, 160000), stages.miri_stage("C04", "", 40)]},
    "jobs": {
        "quick": [("", "release", 24000), ("", "dev", 6000), ("lang", "release", 12000)],
        "thorough": [("", "release", 1200000), ("", "dev", 200000), ("lang", "release", 400000), ("lang", "dev", 60000)],
    },
    "rule": "a case is a random sequence of 10..90 Bitstr API operations (read peek seek substr split_at append insert "
            "invert detach clone drop + constructors) mirrored on a Vec of bits, or (mode lang) a random expression over the "
            "bit-string words evaluated through eval; after every operation the result is compared through every observer "
            "and every live value is re-checked. distinct = distinct sequences of (operation kind, storage class of the "
            "operands) / distinct word skeletons; every sequence has >= 10 operations, so all counted cases are non-trivial",
    "assumptions": ["slice() is only required to return Some for byte-aligned values; when it returns Some the bytes must match",
                    "verif_storage() is used to report which ownership classes were reached, never by the oracle"],
    "require": [need("append_unique_head_with_tail_slack", 50), need_set("storage_classes", 14), need_set("alignments", 64),
                need("operand_rechecks", 100000), need("hostile_args", 1000), need("substr_starting_before_value", 500), need_set("lang_words", 7)],
}

PLANS["C05"] = {
    "jobs": {
        "quick": [("", "release", 8704 * 8), ("", "dev", 4352 * 8)],
        "thorough": [("", "release", 4352 * 400), ("", "dev", 4352 * 60)],
    },
    "rule": "a case is one cell of the finite grid width 1..128 x {little,big} x {signed,unsigned} x bit offset 0..7 (4096 cells, "
            "enumerated completely in every run; later rounds repeat the grid with fresh random values) with ~210 values "
            "(0, +-1, min, max, umax, every single-bit value, random), checked at API level (from_int layout, std byte layouts, "
            "to_uint/to_int of the packed value and of the same field placed at the offset inside random padding) and at language "
            "level (uN iN int uint and the ! packers through eval); every 17th case is a float cell (f32/f64 x order x offset) with "
            "zeros, infinities, subnormals, NaN payloads and random bit patterns. distinct = distinct (cell, round)",
    "exhaustive": "the (width, order, signedness, offset) grid; values are sampled",
    "assumptions": ["little-endian for widths that are not a byte multiple is defined on the value's 8-bit groups (first group least "
                    "significant, last partial group most significant), which is what from_int emits",
                    "language-level uint is only checked up to 127 bits (the i128 cell cannot hold a 128-bit unsigned value)",
                    "a float read by a language word and packed again by the matching pack word must give the same bits (NaN sign and payload "
                    "included); 32-bit signalling NaNs are excluded there because no 64-bit interpreter value narrows to one"],
    "require": [need("cells:little:signed", 1024), need("cells:little:unsigned", 1024), need("cells:big:signed", 1024),
                need("cells:big:unsigned", 1024), need("float_cells", 32), need_set("float_classes", 13), need_set("lang_words", 60),
                need("api_round_trips", 1000000), need("lang_float_repacks", 20000)],
}

PLANS["C09"] = {
    "prepare": stages.c09_arith_vectors,
    "jobs": {
        "quick": [("", "release", 84000 * 4), ("", "dev", 16800 * 4), ("pyvec", "release", 40000), ("pyvec", "dev", 40000)],
        "thorough": [("", "release", 2800000), ("", "dev", 560000), ("pyvec", "release", 1000000), ("pyvec", "dev", 1000000)],
    },
    "rule": "a case is one of the 28 words with 48 operand tuples drawn from boundary integers (0, +-1, +-2, 2^k, 2^k+-1, i64/i128 "
            "min/max, random), reals (zeros, subnormals, +-1, ties, max, infinities, NaN for non-comparisons, +-2^k for k at the edges "
            "of the integer types and the doubles next to them, random bit patterns), one tuple in eight with tagged numeric operands, "
            "mixed int/real and non-numeric operands; operands are pushed as cells (every 8th all-integer tuple goes through "
            "literals) above a sentinel and the word is run through eval. The shard pyvec replays 40000 operand tuples per run whose exact "
            "result (representable / wrapped / division by zero / flag / double) was computed by Python's unbounded integers and "
            "doubles. distinct = distinct (word, operand classes, outcome class) / distinct vectors",
    "assumptions": ["non-representable + - * / neg abs (and bsl) may wrap or raise IntegerOverflow; real rem by zero may be NaN or a "
                    "division error; min/max with a NaN or with equal operands may return either operand; round is ties-away-from-zero",
                    "comparisons are not given NaN operands (left unspecified by the statement)"],
    "require": [need_set("words", 28), need("outcome:wrapped", 100), need("outcome:division-error", 50), need("outcome:type-error", 1000),
                need("outcome:exact", 10000), need("outcome:real", 5000), need("tuples_with_tagged_operand", 100000),
                need("pyvec:vectors", 70000), need_set("pyvec_words", 27), need("pyvec:kind:wrap", 2000), need("pyvec:kind:div0", 500)],
}

PLANS["C18"] = {
    "stages": {"quick": [], "thorough": [stages.miri_stage("C18", "", 30)]},
    "jobs": {
        "quick": [("", "release", 301 * 7 * 40), ("", "dev", 301 * 7 * 16)],
        "thorough": [("", "release", 301 * 7 * 300), ("", "dev", 301 * 7 * 60)],
    },
    "rule": "a case is a byte string of length idx mod 301 (every length 0..300 in every run; content random / all-zero / all-ones / boundary-digit (Z85 digits 0 and 84, 5- and 6-bit groups all-zero or all-one) / "
            "structured / printable) encoded by base32, base32hex, base64 and zero85 from one of seven input forms (byte-aligned view into a longer buffer, string, byte vector, "
            "nested vectors, aligned bit-string, bit-string sliced at bit offset 1..7), compared with independent reference encoders, "
            "decoded back, plus three mutated/arbitrary texts per codec and >bitstr-acceptance probes. distinct = distinct (length, "
            "content class, repetition)",
    "exhaustive": "byte-string lengths 0..300",
    "assumptions": ["'text that is not valid in the alphabet' is read as: text containing a character that is neither in the alphabet "
                    "(incl. documented case / O I L aliases) nor the padding character; such text must decode to nil. Text made of "
                    "alphabet characters with wrong length or misplaced padding may decode to nil or to some bit-string, never an error"],
    "require": [need("round_trips", 10000), need_set("invalid_text_classes", 7), need_set("lengths_mod_20", 20),
                need("invalid_text_nil", 5000), need("form:unaligned-bitstr", 1000), need("form:aligned-view-of-longer-buffer", 1000), need("acceptance_checks", 500), need("long_inputs", 300)],
}

G1_RULE = ("a case is a random program from the control-flow grammar (literals, stack words, if/else/then, case/of/endof/endcase, "
           "begin/until, begin/while/repeat, begin/repeat, break, do/loop with I J K, nested and redefined and recursive "
           "definitions, locals and global variables incl. re-declarations that shadow, case with and without default code; empty bodies and zero-trip loops included; 70% type-safe, 15% with one planted "
           "build-time or run-time failure, 15% with one structurally infinite loop), rendered with random whitespace, CRLF, "
           "comments and multi-byte text")

PLANS["C01"] = {
    "jobs": {
        "quick": [("", "release", 300000 * 3), ("", "dev", 40000 * 3)],
        "thorough": [("", "release", 6000000), ("", "dev", 600000)],
    },
    "rule": G1_RULE + "; the real eval() run is compared with the direct structural evaluation of the AST on result kind, "
            "visible stack, variables, captured output, error class and failing token; distinct_nontrivial = distinct construct-tree "
            "skeletons of nesting depth >= 2 that contain a loop or a case (hashed, counted by the aggregator)",
    "assumptions": ["the reference evaluator defines the meaning of the primitive words (rot exchanges items 1 and 3, == is numeric "
                    "only, print quotes strings) exactly as the word list documents; C01 is about control flow, not word semantics",
                    "programs whose reference run exhausts 30000 steps outside a loop built as infinite are skipped and counted",
                    "break inside begin..until or before while, and var inside an open structure, are rejected by the compiler "
                    "with an error and are outside the grammar"],
    "require": [need("succeeding_programs_compared", 20000), need("divergent_confirmed_or_checked", 2000), need_set("nesting_pairs", 70),
                need_set("planted_kinds_matched", 10), need("empty_bodies", 10000), need("zero_trip_loops", 5000),
                need("jump_distance:Jump:0", 100), need("jump_distance:Loop:0", 100), need("locals_in_loops", 500),
                need("redefinitions", 1000), need("recursive_defs", 1000), need_set("opcodes", 17),
                need("var_redeclarations", 200), need("local_redeclarations", 2000), need("case_without_default_code", 20000)],
}

PLANS["C15"] = {
    "hang_is_violation": "every drive mode runs under the same instruction limit (at most 40000) and single-stepping is bounded by the monitor's own "
                         "step counter, so a drive mode that is still executing after 40 CPU-seconds did not honour the budget the "
                         "other modes honoured: the drive modes disagree",
    "jobs": {
        "quick": [("", "release", 40000), ("", "dev", 6000)],
        "thorough": [("", "release", 1600000), ("", "dev", 160000)],
    },
    "rule": "a case is one program (two thirds of them after an earlier program has left values, a word and a variable behind; even indices: a G1 control-flow program incl. failing and divergent ones; odd indices: a G2 typed "
            "word-soup program over the whole dictionary with binary input set) driven six ways from identical fresh interpreters: "
            "{eval, compile+run, compile+step*} x {recording off, on}; the six observations (result or error, visible stack, every "
            "variable, captured stdout) must be identical. distinct = distinct programs after literals are abstracted away",
    "assumptions": ["every run has an instruction budget (40000, 3000, 257 or 52 by case index); a program stopped by it must be "
                    "stopped at the same point in every drive mode and is compared like any other failing program"],
    "require": [need("programs_ok", 10000), need("programs_failing", 1000), need_set("reverse_step_variants", 14), need_set("opcodes", 18),
                need_set("features", 30), need_set("error_kinds_compared", 8),
                need("programs_stopped_by_insn_limit_compared", 1000), need("programs_after_an_earlier_program", 20000),
                need("programs_under_a_tight_stack_limit", 3000), need("programs_using_an_immediate_word_that_reads_a_variable", 2000),
                need("programs_after_a_program_that_called_exit", 4000)],
}

G2_RULE = ("a G2 program is a typed word soup over the whole dictionary (collections, tags, bit-string reads and packers that move the "
           "input cursor, formatting, let patterns, foreach, enums, late binding, meta blocks, definitions with locals, deliberate "
           "run-time failures) steered by an abstract typed stack so that most programs run deep")

PLANS["C02"] = {
    "jobs": {
        "quick": [("", "release", 200000), ("", "dev", 16000)],
        "thorough": [("", "release", 6000000), ("", "dev", 480000)],
    },
    "rule": "a case is one program (every third a G1 control-flow program, the others G2; " + G2_RULE + ") compiled, then single-stepped "
            "with recording on while the dump hook records D0..Dn (n <= 400); then a seeded walk of 3n+6 rnext/next moves, a full rewind "
            "(plus one rnext at the start, which must be a no-op) and a full replay; after every move the machine state (ip, data stack "
            "incl. hidden part, frames with locals, loop records, builder marks, every heap cell) must equal the dump recorded for that "
            "position. A step that fails ends the history: re-executing it from the rewound point must fail identically. One case in 3000 is a long history instead (a counted loop of 9000..14000 turns over variable stores, calls with locals or vector builders: "
            "50 000 - 170 000 steps, several hundred thousand log records), walked 300 random moves, rewound to the start and replayed to the end. distinct = "
            "distinct instruction traces of >= 5 steps",
    "assumptions": ["a failed step is not a completed step: one rnext after it must restore the state before it, or (when the failed "
                    "instruction logged nothing) the state one instruction earlier; both are accepted",
                    "stepping forward again *after* a failure without rewinding is outside the statement and not checked",
                    "sources that fail to build are skipped and counted"],
    "require": [need("moves_checked", 2000000), need_set("reverse_step_variants", 15), need_set("opcodes", 18), need_set("insn_and_log", 120), need("long_histories_rewound_and_replayed", 40),
                need("histories_ending_in_failed_step", 1000), need("rnext_at_start_is_noop", 10000), need_set("features", 30)],
}

PLANS["C03"] = {
    "stages": {"quick": [stages.memcheck_stage("C03", "capi", 1600, 80000)], "thorough": [stages.memcheck_stage("C03", "capi", 1600, 80000), stages.miri_stage("C03", "capi", 24)]},
    "jobs": {
        "quick": [("", "release", 14000), ("", "dev", 1600), ("d2", "release", 640), ("capi", "release", 3200)],
        "thorough": [("", "release", 600000), ("", "dev", 48000), ("d2", "release", 16000), ("capi", "release", 160000)],
    },
    "rule": "a case is a clone-tree history: 8..48 steps over up to 8 live interpreter copies, each step an operation on one copy "
            "(eval / compile+run / compile+step+reverse-step+run of a sharing-then-mutating source or a G2 snippet; set_binary_input; "
            "recording on/off), a clone of a copy (clone of clone up to depth 8, plus a pristine snapshot) or the drop of a copy. After "
            "every step the full rendering (machine state, bookkeeping, dictionary, code, reverse log, bit-strings bit by bit; canvas in "
            "mode d2) of every copy and snapshot that was not operated on must be unchanged; at the end the operations each original "
            "executed after a clone point are replayed on the snapshot taken there (first on a clone of it with all copies alive, then, "
            "after all copies are dropped, on the snapshot itself) and every observation and the final state must be identical; half of the first-round replays are "
            "shadowed by a further clone of the snapshot that runs the same sources with the names of words and variables rotated and looks "
            "up, right before every replayed source, the name that source starts with. Mode "
            "capi drives xeh_open/xeh_snapshot/xeh_push/xeh_pop/xeh_close. distinct = distinct histories with >= 1 clone point and >= 8 steps",
    "assumptions": ["sources exclude random, random-bits, read-all, write-all, exec-piped, include/require, as the statement does",
                    "mode d2 loads the canvas plugin the REPL loads; its shared host object is a known finding (see known_findings.json) "
                    "and is exercised by its own shard so that the general workload stays free of it"],
    "require": [need("clone_points", 20000), need("immutability_checks", 1000000), need("replayed_ops", 100000),
                need("ops_on_copy_with_shared_bitstr_buffer", 50000), need("final_states_compared", 10000),
                need("stmt:resolve-late", 1000), need("stmt:stack-only-slice-then-mutate", 1000), need("stmt:mutate-top-of-stack", 1000),
                need("op:step", 10000), need("capi_snapshots", 1000), need("copies_dropped", 5000),
                need("stmt:refused-nested-conversion", 1000), need("stmt:nested-conversion", 1000),
                need("replays_shadowed_by_a_diverging_clone", 3000)],
}

PLANS["C14"] = {
    "hang_is_violation": "every execution in this monitor runs under an instruction limit or is stepped with the monitor's own bounded "
                         "counter, so a case that is still executing after 40 CPU-seconds executed far more instructions than any limit "
                         "that was set",
    "jobs": {
        "quick": [("", "release", 150000), ("", "dev", 15000)],
        "thorough": [("", "release", 6000000), ("", "dev", 600000)],
    },
    "rule": "five case kinds by index: (insn) a compiled G1/G2/growth program is stepped with the monitor's own counter under every "
            "instruction limit 0..24 plus the boundary values around the unconstrained twin's need and random ones, and run() under the "
            "same limits: never more than N successful steps, the meter never above N, the state run() stops in must be reached by the "
            "stepped twin within N instructions, exact need is accepted, need-1 refused, a further step after the error makes no progress, "
            "and after raising the limit run() reaches the twin's final observation; (stack) the same sweep for the stack limit with the "
            "dump hook read after every step, with 0..3 items already on the stack; (stack-shift) growth programs (unbox, collect, "
            "recursion, loops, foreach, meta blocks, locals) through eval or compile+run: the smallest sufficient limit is found on an "
            "empty stack and must move by exactly d when d items are already there; (heap) var / let / defvar under every heap limit "
            "around cells-in-use and need, on heaps with 0..3 extra cells, incl. limits below current usage; (session) limits changed "
            "between evaluations with all three invariants checked after every step; (budget) one instruction limit N, then 3..10 sources "
            "(top-level loops, meta-block loops, immediate words, non-terminating blocks, sources rejected after their build-time code ran, "
            "resubmissions) whose every loop turn prints a tick costing at least two instructions: the ticks printed since the limit was "
            "set never exceed N/2. Reverse-step recording is switched on in half of the cases of every kind; a defvar refused by the heap "
            "limit must leave its name unknown also after the limit is raised and another variable allocated. distinct = distinct (kind, program)",
    "assumptions": ["a stack limit only refuses pushes: items that were on the stack when a lower limit is set stay",
                    "recovery after a heap-limit error raised at build time is probed through the host API (defvar); how later "
                    "sources behave after a refused build is C10's subject",
                    "the instruction meter may charge a late-bound word's first execution twice; exact-need is taken from the twin's meter"],
    "require": [need("insn:limits_swept_step", 200000), need("insn:boundary_fail_confirmed", 100000), need("insn:boundary_ok_confirmed", 10000),
                need("insn:recoveries", 100000), need("insn:run_stop_states_located", 100000), need("stack:steps_checked", 1000000),
                need("stack:boundary_fail_confirmed", 50000), need("stack:boundary_ok_confirmed", 10000), need("stack:recoveries", 50000),
                need("shift:boundary_ok_confirmed", 20000), need("shift:boundary_fail_confirmed", 20000),
                need("heap:boundary_fail_confirmed", 50000), need("heap:boundary_ok_confirmed", 10000), need("heap:api_sequences", 50000),
                need("heap:recoveries", 50000), need("session:steps_checked", 500000), need_set("growth_paths", 13),
                need_set("heap_growth_paths", 7), need_set("stack_limit_fired_in", 12), need_set("insn_limit_fired_at", 12),
                need("budget:sources", 50000), need("budget:sessions_with_rejected_source", 4000), need("heap:refused_definitions_checked", 50000),
                need("stack:cases_with_recording", 4000), need("budget:ticks", 50000)],
}

PLANS["C12"] = {
    "jobs": {
        "quick": [("", "release", 400000 * 2), ("", "dev", 40000 * 2), ("mixed", "release", 8000 * 2)],
        "thorough": [("", "release", 3000000), ("", "dev", 300000), ("mixed", "release", 60000)],
    },
    "rule": "a case is a sequence of 10..60 collection operations over a pool of live values (maps: insert remove get foreach, map "
            "literal rebuilt from shuffled pairs incl. an overwritten duplicate, equal?; vectors: push nth get slice reverse length "
            "unbox collect sort concat join; strings: slice by character, length) mirrored on an association list keyed by structural "
            "equality / plain sequences; keys and elements of every type (nil, flags, ints, reals, strings, bit-strings, vectors, maps), "
            "randomly tagged at any depth; indexes from {0, +-1, +-len, +-(len+-1), isize min/max, 2^64, i128 min/max}; every live value "
            "is re-checked every 8 operations (value semantics). In the main shard every map holds keys of one type (any of the 8); "
            "the shard 'mixed' puts keys of different types into one map. distinct = distinct operation sequences",
    "assumptions": ["map iteration order is unspecified: foreach is compared as a multiset of pairs",
                    "length of a string is only compared for ASCII strings (the statement does not fix the unit); slice indexes characters",
                    "slice clamps every index to 0..=len (as the suite pins); nth accepts negative indexes, get does not",
                    "keys of different types in one map collide (known finding, see known_findings.json): exercised by the shard "
                    "'mixed', whose non-crash mismatches on histories that involve such maps carry the signature C12:mixed-key-types"],
    "require": [need("op:insert", 100000), need("op:remove", 30000), need("op:map-get", 30000), need("op:map-foreach", 30000),
                need("op:map-literal", 30000), need("op:slice", 50000), need("op:sort", 20000), need("op:nth", 20000), need("op:get", 20000),
                need("old_value_rechecks", 1000000), need("index_errors_confirmed", 20000), need_set("key_type_pairs", 8),
                need_set("index_classes:nth", 8), need_set("index_classes:slice", 8), need_set("index_classes:str-slice", 8)],
}

PLANS["C13"] = {
    "jobs": {
        "quick": [("", "release", 400000 * 4), ("", "dev", 40000 * 4)],
        "thorough": [("", "release", 16000000), ("", "dev", 1600000)],
    },
    "rule": "7 of 8 cases: one eligible dictionary word (all 166 non-immediate native words except the tag words, the printing/"
            "formatting words, the external/non-deterministic ones and <name>; chosen round-robin) is applied to three arguments "
            "drawn from 13 value classes, once untagged and once as tagged copies (tags on the top, second or every argument and/or "
            "on nested elements, keys and values, tags on tags, the formatting tag, read-style len/big tags) in two clones of one "
            "interpreter; outcome, error payload, result stack, variables and output must agree modulo tags, and every tagged value in "
            "the result must be one of the tagged inputs (or carry exactly the tags the word attaches in the untagged run). 1 of 8 "
            "cases: a sequence of 3..12 tag words (insert-tag remove-tag get-tag with-tags tags) against a (value, attached map) "
            "model; the value must stay equal. One pair in six passes the same cell as both top arguments (shared storage, as dup leaves "
            "it); values include NaN; str>number (which takes its base from the formatting tag) is paired with tag maps that lack that "
            "tag. distinct = distinct (word, argument classes, tag positions, outcome)",
    "assumptions": ["tag maps use string keys only (maps with keys of different types are C12's known finding)",
                    "nil and { } both mean 'no tags'",
                    "allocation-size arguments of int! / uint! are kept <= 512 bits"],
    "require": [need_set("words_covered", 166), need_set("words_both_succeeded", 150), need("pairs_both_succeeded", 100000),
                need("pairs_both_failed", 100000), need("tagop:insert-tag", 20000), need("tagop:with-tags", 10000),
                need_set("tag_positions", 7), need_set("arg_classes", 20), need("keyed_map_cases", 30000), need("aliased_argument_pairs", 15000)],
}

PLANS["C10"] = {
    "needs_repo_bin": True,
    "stages": {"quick": [stages.c10_repl_stage], "thorough": [stages.c10_repl_stage]},
    "jobs": {
        "quick": [("", "release", 250000), ("", "dev", 25000)],
        "thorough": [("", "release", 10000000), ("", "dev", 1000000)],
    },
    "rule": "4 of 5 cases: a history of 0..5 accepted sources is given to the subject and to a twin (a fresh interpreter, not a clone); "
            "the subject then gets a source that is rejected while building = optional completed prefix (push, print, definition, var, "
            "meta block redefining a constant, late word) + 0..2 of 15 unclosed structures (if begin do case-of case vec map tags def "
            "meta enum and combinations) + one of 33 failing tokens (bad literals, unknown word, unbalanced closers, errors inside meta "
            "blocks, failing immediate words, failing include, failures inside text injected with ~) or inside an included file) + one of 9 trailers with visible side effects; the dump hook must show "
            "mode, nesting, pending flows, pending inputs, hidden/visible split, machine state, dictionary and code unchanged, and 2..6 "
            "probes (20 kinds, eval or compile+run) must give identical observations on subject and twin. 1 of 5 cases: a source that "
            "prints a marker and then fails at run time; later probes with known effect must succeed, push exactly their result and "
            "print only their own output. A stage types sessions into the repository's own xeh binary (REPL) and compares with the "
            "twin session. distinct = distinct (open structures, failing token, trailer, style)",
    "assumptions": ["the source counter (<buffer#N>) and the instruction meter legitimately move when a source is rejected",
                    "a source is 'rejected while building' when compile() returns the error, or eval() returns it without having added code"],
    "require": [need("history_sources_failing_at_run_time", 5000), need("rejected_sources", 100000), need("hook_invariants_checked", 100000), need("probes_compared", 300000),
                need("runtime_failures", 20000), need("runtime_probes", 50000), need_set("failure_kinds", 31), need_set("open_structures", 60),
                need_set("probe_kinds", 19), need("repl_twin_sessions_compared", 60), need("repl_runtime_sessions_checked", 20)],
}

PLANS["C11"] = {
    "jobs": {
        "quick": [("", "release", 300000 * 5), ("", "dev", 30000 * 5)],
        "thorough": [("", "release", 12000000), ("", "dev", 1200000)],
    },
    "rule": "6 of 8 cases: a constant expression e (arithmetic and stack words, multi-valued, vectors, strings, maps and bit-strings, "
            "words defined and used inside the block, const definitions, nested blocks; also expressions that fail) is placed as "
            "#( e #) at one of 9 positions (top level, vector, map value, tag value, definition, definition inside a vector, inside "
            "another meta block, if branch, loop body) in a program with 4 kinds of surrounding stack/variables and 5 kinds of "
            "follow-up code; the same program with the block replaced by the literal value(s) that e yields under ordinary evaluation "
            "(last result first; original order directly inside another block) must give the same observation through eval and "
            "compile+run; words defined inside must not be callable afterwards. 1 of 8: one of 22 blocks that try to read or change "
            "the surrounding stack or a variable, in 3 wrappers: must be rejected and leave stack and variables unchanged. 1 of 8: "
            "hook invariants - compile() of a whole G1/G2 program leaves data stack, existing variables and output untouched; compiling "
            "a single block adds exactly one code cell per result and only its constants to the dictionary. Expressions include results "
            "carrying tags (formatting tag, user tags; written out as value + with-tags in P'), constants redefined in the same block, "
            "after a word definition, and in a nested block. Half of the sealing cases are twin-stack probes: the same random block "
            "(stack words, collect, depth, literals, builders) runs with 1..8 values below it and with none: outcome class and printed "
            "output must be equal and the stack must be the values below plus the other run's stack. distinct = distinct "
            "(position, expression, surroundings)",
    "assumptions": ["expressions avoid words that read variables (byte order, input cursor): meta mode refuses those by design",
                    "a block nested directly inside another block shares its parent's stack, so its results keep their order (pinned "
                    "by state::tests::test_meta_meta); everywhere else results are inlined last result first"],
    "require": [need("pairs_equal", 150000), need("failing_blocks_rejected", 300), need("purge_checks", 20000), need("sealing_probes_rejected", 20000),
                need("compile_invariants_checked", 10000), need("block_hook_invariants_checked", 10000), need_set("positions", 9),
                need_set("expr_classes", 17), need_set("sealing_kinds", 22), need_set("result_counts", 4),
                need("twin_stack_probes:accepted_alike", 1000), need("twin_stack_probes:rejected_alike", 5000),
                need("pairs_after_a_failed_program", 20000), need("pairs_submitted_as_files", 20000), need("pairs_compared_across_submission_styles", 30000)],
}

PLANS["C16"] = {
    "stages": {"quick": [], "thorough": [stages.miri_stage("C16", "", 120)]},
    "prepare": stages.c16_float_vectors,
    "jobs": {
        "quick": [("", "release", 600000 * 4), ("", "dev", 60000 * 4)],
        "thorough": [("", "release", 30000000), ("", "dev", 3000000)],
    },
    "rule": "4 of 5 cases: a text of 1..14 fragments (integers in every spelling up to and beyond the i128 range in decimal, 0x, 0b and "
            "leading-zero hex with signs, '_' and injected bad digits; reals from the reference vectors; strings with every escape, "
            "curly quotes, bad escapes, missing terminators and missing separators; bit-strings with hex digits, x/. bits, bad "
            "characters; line and multi-line comments incl. nested markers and unterminated ones; dictionary words; multi-byte and "
            "combining characters; every ASCII whitespace kind and non-ASCII spaces; fragments sometimes glued without separator) is "
            "fed to Lex::next until the end or the first error: at most len+2 calls, every token starts where the previous one ended, "
            "its text is the input slice, and kind, extent and value equal an independent reading of the documented grammar "
            "(malformed text must be rejected, well-formed text accepted); reals are compared bit for bit with Python's float() on "
            "20000 spellings prepared per run. 1 of 5 cases: an integer, bit-string (0..601 bits) or nested vector/map of those is "
            "printed with format_cell (default; hex, binary and upper-case hex with prefix for non-negative integers) and read back "
            "with eval: the value must be equal. distinct = distinct texts / values",
    "assumptions": ["only ASCII whitespace separates tokens (non-ASCII spaces are word characters), as the lexer documents by using it",
                    "a bit-string literal needs no separator after its closing bar; a string literal does",
                    "a real literal is a numeric token containing '.'; spellings Python's float() rejects must be rejected, spellings of "
                    "the strict form digits.digits[e[+-]digits] must be accepted; 1e5 (no point) is not a real literal",
                    "hex/binary printing is only read back for non-negative values (there is no signed two's-complement reading)"],
    "require": [need("tok:int", 100000), need("tok:real", 50000), need("tok:str", 50000), need("tok:bitstr", 50000), need("tok:comment", 20000),
                need("tok:word", 200000), need("malformed_rejected", 100000), need("reals_checked_against_python", 50000),
                need("roundtrip:default", 50000), need("roundtrip:hex", 5000), need("roundtrip:bin", 5000), need_set("error_kinds", 9),
                need_set("roundtrip_value_kinds", 4)],
}

PLANS["C17"] = {
    "jobs": {
        "quick": [("", "release", 400000 * 3), ("", "dev", 40000 * 3)],
        "thorough": [("", "release", 16000000), ("", "dev", 1600000)],
    },
    "rule": "a case plants one failing token (10 build-time kinds: unknown words incl. multi-byte names, bad literals, unbalanced "
            "closers, store to an unknown variable; 10 run-time kinds: division, type, out-of-bounds, assert, assert-eq, error, rem, "
            "loop index outside a loop; control-structure openers given a non-flag / non-integer: if, while, do) in one of 18 scenarios (top level, loop, if, word called from the same source, from a later "
            "source, through a chain of 2..5 calls, meta block, word called inside a meta block, included file, first token after an "
            "include, text injected with ~) and the token after it, the same text submitted 2..4 times, a second failing source after a "
            "first, inside a half-built definition, in the code of a file's first load after the file was included a second time (unchanged or edited in between), "
            "in a program resumed with run() after the host repaired the stack following an underflow, inside a user-defined immediate word that "
            "runs while a later source is built, at the instruction at which an instruction budget of N runs out - taken from a twin that steps the "
            "same program N times without a limit), a quarter of the plain scenarios ending right after the failing token or with a comment whose last "
            "character is multi-byte and no line end, preceded by 0..3 earlier sources (one in four rejected) and by filler with LF / "
            "CRLF / tabs / blank lines / multi-byte text / line and multi-line comments. last_err_location() must name the source "
            "(by the monitor's own count of interned sources, or the include path), the token's byte offset and text, line and column "
            "in characters, the quoted line; pretty_error() must show source:line:col and the line; debug map and code have equal "
            "length. distinct = distinct (scenario, token, phase, source text)",
    "assumptions": ["lines are ended by LF or CRLF (lone CR is not generated); columns count characters; tabs count as one character",
                    "when another error fires before the planted one (possible in a few scenario/token combinations) the case is counted, not judged"],
    "require": [need("locations_confirmed", 300000), need_set("error_classes", 9), need("with_crlf_before_token", 50000),
                need("with_multibyte_on_the_same_line_before_token", 20000), need("with_tab_before_token", 50000)] +
               [need("scenario:%s" % s, 10000) for s in ["top", "loop", "if", "called-word-same-source", "called-word-earlier-source", "deep-call-chain",
                                                       "meta-block", "word-in-meta", "included-file", "after-include", "injected-text",
                                                       "identical-sources", "second-error", "definition-body-build-error", "file-included-twice", "resumed-run",
                                                       "immediate-word-fails-during-a-later-build", "instruction-limit"]] +
               [need("token_on_last_line_without_line_end", 30000)],
}

PLANS["C06"] = {
    "jobs": {
        "quick": [("", "release", 120000 * 5), ("", "dev", 24000 * 5)],
        "thorough": [("", "release", 5000000), ("", "dev", 1000000)],
    },
    "rule": "a case is a sequence of 6..75 parsing words on one interpreter: open-bitstr of a 0..199-bit value cut out of a longer "
            "random buffer at a random bit position (nested up to depth 12), close-bitstr, bits, bytes, uN/iN[le|be] for N in 8 16 32 "
            "64, int, uint, fN[le|be], float, magic (the next bits, a corrupted copy, or a pattern longer than what is left), seek "
            "(start, end, end+1, start-1, inside, hostile), find (present and absent byte patterns, unaligned patterns), magic and find patterns either fresh or cut out "
            "of a longer buffer at a random bit position, remain, "
            "big/little, nulbytestr, cstr, and wrong-type arguments; sizes are drawn from {0, remain, remain+-1, 2^32+-1, 2^61, "
            "2^63-1, 2^63, 2^64-1, 2^64, 2^64+1, 2^64+8, usize::MAX/8+1, i128 max/min, -1, random}. After every word the real "
            "offset, input, remain and data stack are compared with a cursor model (stack of inputs with the absolute position of "
            "their first bit) and independent decoders; after a refused word offset, input and the stack below the arguments must be "
            "unchanged. distinct = distinct word sequences",
    "assumptions": ["offsets are absolute positions inside the value's backing buffer (the position of a freshly opened input is read "
                    "from `offset` once and tracked by the model afterwards)",
                    "find is defined on whole bytes: with a cursor or rest that is not byte aligned it may be refused or searched, but "
                    "never moves anything; a zero-width int/uint may be refused or yield 0",
                    "close-bitstr with nothing left to close may fail; it then changes nothing"],
    "require": [need("cursor_checks", 2000000), need("failures_confirmed", 500000), need("nothing_moved_checks", 500000), need("closes", 50000),
                need_set("failure_kinds", 40), need("word:magic", 50000), need("word:find", 50000), need("word:seek", 50000),
                need("word:cstr", 20000), need("word:nulbytestr", 20000),
                need("magic:pattern-is-slice", 40000), need("find:pattern-is-slice", 40000)],
}

PLANS["C07"] = {
    "jobs": {
        "quick": [("", "release", 200000 * 5), ("", "dev", 30000 * 5)],
        "thorough": [("", "release", 8000000), ("", "dev", 1200000)],
    },
    "rule": "a case is a record of 1..24 typed fields: integers of width 1..128 (signed and unsigned, through int!/uint! and the fixed "
            "uN!/iN! words with and without explicit byte order; values 0, -1, i128 min/max, the sign-bit value and its predecessor, "
            "random), f32/f64 (zeros, infinities, subnormals, max, random bit patterns; through fN! and float!), raw bit-strings of "
            "0..70 bits (half of them views into a longer buffer starting at another bit position), strings (ASCII, multi-byte, with newline and quote), single bytes and nested byte lists, with big/little "
            "switches between fields so that fields start at every bit alignment. The record is packed with one (randomly nested) "
            "[ ... ] >bitstr, compared bit for bit with the harness's own layout, parsed back with the matching read words in the same "
            "byte order (values must equal the originals, remain must be 0), then emitted again split at random positions over several "
            "emit calls (single bit-strings directly, groups through >bitstr; in one source text or one eval per call, with "
            "intercept_output(true) called again in between) with interception on: output must equal the layout and "
            "output-length its length. distinct = distinct (field kinds, alignments, layout)",
    "assumptions": ["little-endian for widths that are not a byte multiple is defined on the value's 8-bit groups, as in C05",
                    "unsigned fields are at most 127 bits wide (the i128 cell cannot hold a larger unsigned value); f32 fields hold "
                    "f32-representable values; NaN is not packed through the language (payload rules of the f64->f32 cast are not the subject)"],
    "require": [need("records_parsed_back", 100000), need("emit_sequences", 100000), need("emit_calls", 300000), need_set("field_kinds", 120),
                need("field:int-odd", 300000), need("field:float32", 50000), need("field:float64", 50000), need("field:string", 100000), need("raw_fields_that_are_views", 50000),
                need("emit:interception_switched_on_again", 50000), need("emit_sequences:one_eval_per_call", 30000)],
}

PLANS["C08"] = {
    "oom_is_excluded": True,
    "needs_repo_bin": True,
    "stages": {"quick": [stages.memcheck_stage("C08", "", 32000, 1600000), stages.c08_repl_stage], "thorough": [stages.memcheck_stage("C08", "", 32000, 1600000), stages.c08_repl_stage, stages.miri_stage("C08", "", 60)]},
    "jobs": {
        "quick": [("", "release", 1200000), ("", "dev", 240000)],
        "thorough": [("", "release", 48000000), ("", "dev", 9600000)],
    },
    "rule": "half of the cases: one dictionary entry (all 249 entries = 248 distinct names incl. the canvas plugin, round-robin; immediate words are given source "
            "text to parse, in 11 surrounding constructs) applied to 0..3 arguments drawn from 38 argument classes (nil, flags, "
            "boundary integers 0 +-1 2^63 2^64 i128/isize/usize extremes, reals incl. NaN and infinities, strings incl. 70-80 byte "
            "strings with multi-byte characters at the elision boundary, numeric strings, strings of hex digits mixed with ASCII and multi-byte blanks, bit-strings aligned / odd / sliced, vectors "
            "(nested 40 deep, long), maps, tagged values incl. hand-made formatting tags, values read from binary input), through eval, "
            "compile+run or compile+step, with recording on in a third of the cases followed by reverse steps; the other half: token "
            "soup (dictionary words, boundary and malformed literals, arbitrary UTF-8, control-structure fragments, let patterns, "
            "includes of scratch files, parsing words with hostile sizes, known-dangerous fragments) on a fresh interpreter or on a "
            "long-lived one that accumulates state, with limits sometimes lowered; one soup in three is made of defining and compiling "
            "words over five names, nested as sources nest them (definitions inside meta blocks, the name being defined reused by "
            "const/var/local/late, closers without openers). After every call Display/Debug of the error, "
            "pretty_error(), last_err_location() and format_cell / format_cell_safe of the top six stack values are called too. "
            "Every call runs under catch_unwind; the parent watches exit status and signals. Instruction limit 3000, stack limit 256, "
            "address space 3 GiB; allocation-size arguments (random-bits, int!, uint!, d2-resize) <= 65536; file and exec words only "
            "see scratch paths. distinct = distinct (word, argument classes, drive style) / distinct soups",
    "assumptions": ["'memory allocation of N bytes failed' aborts are counted as 'allocation not modest' (excluded by the statement's "
                    "own proviso), never as violations",
                    "exec-piped only runs /bin/cat or a missing program"],
    "require": [need_set("words_reached", 248), need_set("xerr_variants", 22), need("call:eval", 60000), need("call:compile", 60000),
                need("call:run", 15000), need("call:next", 15000), need("call:rnext", 60000), need("call:pretty_error", 200000),
                need("call:format_cell", 200000), need("soups:long-lived", 30000), need_set("arity1_class_tuples", 38),
                need_set("arity2_class_tuples", 1000), need_set("arity3_class_tuples", 3000), need("memcheck_cases_without_report", 20000), need("soups:defining-words", 60000), need("repl_sessions", 200), need_set("repl_commands_typed", 7)],
}
