"""Per-property plans: jobs (mode, profile, cases) per tier, evidence rule text, minimum-observation requirements.

A requirement returns None when satisfied or a message; an unmet requirement makes the run INCONCLUSIVE (exit 2),
never a violation."""


def need(counter, minimum):
    def f(counters, sets, maxes, cases, shapes, tier):
        if counters.get(counter, 0) < minimum:
            return "observed too little: counter %s = %d < %d" % (counter, counters.get(counter, 0), minimum)
    return f


def need_set(name, minimum):
    def f(counters, sets, maxes, cases, shapes, tier):
        if len(sets.get(name, ())) < minimum:
            return "observed too little: set %s has %d < %d members" % (name, len(sets.get(name, ())), minimum)
    return f


def need_members(name, members):
    def f(counters, sets, maxes, cases, shapes, tier):
        missing = [m for m in members if m not in sets.get(name, ())]
        if missing:
            return "never observed in %s: %s" % (name, ", ".join(missing[:12]))
    return f


PLANS = {}

PLANS["C04"] = {
    "jobs": {
        "quick": [("", "release", 24000), ("", "dev", 6000), ("lang", "release", 12000)],
        "thorough": [("", "release", 1200000), ("", "dev", 200000), ("lang", "release", 400000), ("lang", "dev", 60000)],
    },
    "rule": "a case is a random sequence of 10..90 Bitstr API operations (read peek seek substr split_at append insert "
            "invert detach clone drop + constructors) mirrored on a Vec of bits, or (mode lang) a random expression over the "
            "bit-string words evaluated through eval; after every operation the result is compared through every observer "
            "and every live value is re-checked. distinct = distinct sequences of (operation kind, storage class of the "
            "operands) / distinct word skeletons; every sequence has >= 10 operations, so all counted cases are non-trivial",
    "assumptions": ["slice() is only required to return Some for byte-aligned values; when it returns Some the bytes must match",
                    "verif_storage() is used to report which ownership classes were reached, never by the oracle"],
    "require": [need("append_unique_head_with_tail_slack", 50), need_set("storage_classes", 14), need_set("alignments", 64),
                need("operand_rechecks", 100000), need("hostile_args", 1000), need_set("lang_words", 7)],
}
