#!/bin/bash
# runs every registered check once (tier $1, default quick) and prints a one-line summary per check
tier=${1:-quick}
cd "$(dirname "$(readlink -f "$0")")"
for p in $(python3 -c "import json;print(' '.join(c['property_id'] for c in json.load(open('MANIFEST.json'))['checks']))"); do
  s=$(date +%s)
  out=$(./check $p $tier 2>&1)
  rc=$?
  e=$(( $(date +%s) - s ))
  echo "$p rc=$rc ${e}s $(echo "$out" | grep -c '^VIOLATION') violations $(echo "$out" | grep -c '^KNOWN-FINDING') known; $(echo "$out" | tail -1 | cut -c1-150)"
done
