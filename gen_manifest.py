#!/usr/bin/env python3
"""Regenerates MANIFEST.json from plans.py + manifest_text.py (kept as a script so the manifest never drifts)."""
import json, plans, manifest_text as T

ALL = ["C%02d" % i for i in range(1, 19)]
checks = []
for p in ALL:
    if p in plans.PLANS and p in T.TEXT:
        t = T.TEXT[p]
        checks.append({
            "property_id": p,
            "quick_cmd": "./check %s quick" % p,
            "thorough_cmd": "./check %s thorough" % p,
            "evidence_file": "/verif/evidence/%s.json" % p,
            "replay_cmd_template": "./check %s --replay {path}" % p,
            "engine": "xv",
            "level_claimed": {"category": "exploration", "text": t["level"], "design_ref": "DESIGN.md section 2, " + p},
            "level_note": t["note"],
            "technique": t["technique"],
        })
na = [{"property_id": p, "reason": T.NOT_YET.get(p, "check not built yet in this session; no claim is made")}
      for p in ALL if p not in [c["property_id"] for c in checks]]
m = {
    "version": 1,
    "setup_cmd": "cd /verif/harness && CARGO_NET_OFFLINE=true cargo build --offline --release && CARGO_NET_OFFLINE=true cargo build --offline",
    "hooks": {
        "guard": "verif_hooks",
        "enable": "cargo feature: /verif/harness/Cargo.toml depends on xeh = { path = \"/repo\", features = [\"verif_hooks\"] }",
        "baseline_off_cmd": "cd /repo && cargo test --workspace --no-fail-fast --offline",
        "source_commits": T.HOOK_COMMITS,
        "add_only": True,
    },
    "engines": [{"name": "xv", "path": "/verif/harness", "serves_properties": [c["property_id"] for c in checks],
                 "kind_free_text": "Rust worker (one monitor per property: workload generator + reference model/oracle + event "
                                   "observations) driven by the python ./check driver that shards cases over 16 processes, watches "
                                   "exit status/signals, aggregates observations and writes evidence"}],
    "checks": checks,
    "not_applicable": na,
    "notes": "Runtime monitoring only: every check drives the real xeh code (built from /repo's working tree with the verif_hooks "
             "feature) on generated workloads and compares against an executable oracle. Exit 2 = inconclusive (build failure, "
             "too few observations, watchdog), never reported as a violation. Seeds: VERIF_SEED.",
}
json.dump(m, open("MANIFEST.json", "w"), indent=1)
print("checks:", [c["property_id"] for c in checks], "not_applicable:", [n["property_id"] for n in na])
