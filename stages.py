"""Extra stages run by ./check after the worker jobs: they drive other executables (the repository's own xeh binary,
Miri, sanitizer builds) and return results in the worker's format."""
import os, random, subprocess, hashlib, time

ROOT = os.path.dirname(os.path.abspath(__file__))
TARGET = os.path.join(ROOT, "target")


def _res():
    return {"cases": 0, "skipped": 0, "counters": {}, "max": {}, "sets": {}, "shapes": [], "samples": [], "violations": []}


def _count(res, k, n=1):
    res["counters"][k] = res["counters"].get(k, 0) + n


def _see(res, s, v):
    res["sets"].setdefault(s, [])
    if v not in res["sets"][s]:
        res["sets"][s].append(v)


# ---------------------------------------------------------------------------------------------- C10: REPL sessions
OPENERS = ["true if 11", "begin 12", "3 0 do 13", "5 case 5 of 14", "[ 15 16", "{ 17 \"k\"", ": halfdef 18", "#( 19", "#( #( 21", ": wdef #( 23"]
FAILERS = ["12x", "0xZZ", "\"unterminated", "|12 3", "no-such-word", "then", "]", ";", "loop", "#)", "#( 1 0 / #)", "#( no-such-in-meta #)",
           "5 const outside-meta", "! no-such-var", "include \"/nonexistent/file.xeh\"", ":", "local"]
TRAILERS = ["", " 777 print", " 778 779", " : leaked-word 1 ;", " 5 var leaked-var", " ] } then ; loop"]
HISTORY = ["1 2", ": hw 1 + ;", "7 var hv", "[ 1 2 ] \"s\"", "#( 3 const HC #)", "depth"]
PROBES = ["41 1 +", "depth", "5 var pv pv", ": pw 2 * ; 21 pw", "true if 1 else 2 then", "0 3 0 do I + loop", "#( 6 7 * #)", "[ 1 2 3 ] length",
          "leaked-word", "leaked-var", "halfdef", "hv", "3 hw", "HC"]
RUNTIME_FAILS = ["1 0 /", "nil 1 +", "false assert", "\"boom\" error", "[ 1 ] 5 nth", ": rt-inner 1 0 rem ; rt-inner"]
MARK = "\"=====\" println"


def _session(xeh, lines, cwd):
    p = subprocess.run([xeh], input=("\n".join(lines) + "\n").encode(), cwd=cwd, stdout=subprocess.PIPE, stderr=subprocess.PIPE, timeout=60)
    out = p.stdout.decode("utf8", "replace")
    return p.returncode, out, p.stderr.decode("utf8", "replace")


def _blocks(out):
    # the part printed after each marker line (the marker prints itself, then the REPL prints the stack)
    parts = out.split("\"=====\"\n")
    return parts[1:]


def c10_repl_stage(seed, tier, rundir, log):
    """sessions typed into the real xeh binary: H, R, P... against the twin session without R; after a line that fails at
    run time later lines must not re-run it"""
    xeh = os.environ.get("XV_REPO_BIN") or os.path.join(TARGET, "repo-bin", "release", "xeh")
    res = _res()
    if not os.path.exists(xeh):
        return ("repl stage: xeh binary missing", [({}, None, "repl stage: %s not built" % xeh)], {})
    n = 160 if tier == "quick" else 4000
    cwd = os.path.join(TARGET, "scratch", "repl")
    os.makedirs(cwd, exist_ok=True)
    rng = random.Random(seed * 7919 + 13)
    t0 = time.time()
    for i in range(n):
        res["cases"] += 1
        hist = [rng.choice(HISTORY) for _ in range(rng.randrange(4))]
        probes = [rng.choice(PROBES) for _ in range(1 + rng.randrange(4))]
        runtime = rng.random() < 0.3
        if runtime:
            r = "\"MARK\" print " + rng.choice(RUNTIME_FAILS) + rng.choice(["", " \"AFTER\" print"])
        else:
            r = " ".join([rng.choice(["", "31", ": done-before 1 ;"])] + [rng.choice(OPENERS) for _ in range(rng.randrange(3))] + [rng.choice(FAILERS)]) + rng.choice(TRAILERS)
        tail = []
        for p in probes:
            tail += [MARK, p]
        tail += [MARK]
        subject = hist + [r] + tail
        case = "\n".join(subject)
        try:
            rc, out, err = _session(xeh, subject, cwd)
        except subprocess.TimeoutExpired:
            res["violations"].append({"class": "repl:hang", "sig": "C10:repl:hang", "index": i, "case": case,
                                      "detail": "the REPL session did not finish within 60 s (a failed line is being re-run?)"})
            continue
        if rc != 0 and "CTRL-D" not in err:
            _count(res, "repl_sessions_crashed(C08)")
            continue
        _count(res, "repl_sessions")
        _see(res, "repl_kinds", "run-time-failure" if runtime else "rejected-line")
        if runtime:
            # self-relative: MARK printed once, AFTER never, and every probe block shows the probe's effect on top
            if out.count("\"MARK\"") != 1 or "\"AFTER\"" in out:
                res["violations"].append({"class": "repl:failed-line-ran-again", "sig": "C10:repl:failed-line-ran-again", "index": i, "case": case,
                                          "detail": "MARK printed %d times, AFTER printed: %s\n%s" % (out.count("\"MARK\""), "\"AFTER\"" in out, out[-600:])})
                continue
            twin = hist + ["\"MARK\" print"] + tail  # the same session with a line that prints the marker and succeeds
            # the failing word may leave operands behind or not; only require that later probes are not refused for the same error
            errs = [l for l in err.splitlines() if "division by zero" in l or "assertion failed" in l]
            if len(errs) > 1 and not any(p in ("halfdef",) for p in probes):
                res["violations"].append({"class": "repl:failed-line-ran-again", "sig": "C10:repl:failed-line-ran-again", "index": i, "case": case,
                                          "detail": "the run-time error was reported %d times:\n%s" % (len(errs), err[-600:])})
                continue
            _count(res, "repl_runtime_sessions_checked")
            continue
        # was the line really rejected? (an opener followed by its own closer is a valid program): ask a session that ends
        # right after it, whose error stream then holds nothing but that line's report
        rc0, out0, err0 = _session(xeh, hist + [r], cwd)
        if not err0.replace("CTRL-D", "").strip():
            _count(res, "repl_rejected_line_was_accepted")
            continue
        twin = hist + tail
        rc2, out2, err2 = _session(xeh, twin, cwd)
        b1, b2 = _blocks(out), _blocks(out2)
        _count(res, "repl_twin_sessions_compared")
        if b1 != b2:
            k = next((j for j in range(min(len(b1), len(b2))) if b1[j] != b2[j]), min(len(b1), len(b2)))
            res["violations"].append({"class": "repl:probe-differs", "sig": "C10:repl:probe-differs", "index": i, "case": case,
                                      "detail": "after the rejected line the REPL prints something else than the twin session that never saw it (block %d)\nsubject: %r\ntwin:    %r\nstderr: %s"
                                                % (k, b1[k:k + 1], b2[k:k + 1], err[-300:])})
            continue
        res["shapes"].append(hashlib.sha1(case.encode()).hexdigest()[:12])
        if len(res["samples"]) < 2:
            res["samples"].append({"repl_session": subject[:8]})
    note = "repl stage: %d sessions through %s in %.1fs" % (n, xeh, time.time() - t0)
    return (note, [({}, res, None)], {})


# ---------------------------------------------------------------------------------------------- C16: reference vectors for reals
def c16_float_vectors(seed, tier, rundir):
    """decimal spellings with their IEEE-754 double as Python's float() converts them (an implementation independent of the
    one the lexer uses); ERR when Python rejects the spelling"""
    import struct
    rng = random.Random(seed * 104729 + 7)
    n = 20000 if tier == "quick" else 200000
    path = os.path.join(rundir, "float_vectors.tsv")
    fixed = ["0.0", "-0.0", "1.", "1.e3", "1.5e", "1.5e+", "0.1", "0.2", "0.30000000000000004", "9007199254740993.0", "9007199254740992.5",
             "1.7976931348623157e308", "1.7976931348623159e308", "1.8e308", "4.9e-324", "2.4703282292062327e-324", "2.4703282292062328e-324",
             "2.2250738585072014e-308", "2.2250738585072011e-308", "1.0e400", "1.0e-400", "123456789012345678901234567890.5", "00.5", "1.5E3",
             "1.5e+3", "1.5e-3", "+1.5", "-1.5", "1_000.5", "1._5", "1.5_e3", "1..5", "1.2.3", "1.e", "1.5e3.2", "1.5f", "1.5d", "0.1e-00007",
             "179769313486231580793728971405303415079934132710037826936173778980444968292764750946649017977587207096330286416692887910946555547851940402630657488671505820681908902000708383676273854845817711531764475730270069855571366959622842914819860834936475292719074168444365510704342711559699508093042880177904174497791.9"]
    out = []
    def add(t):
        clean = t.replace("_", "")
        try:
            # Python accepts spellings (inf, nan, surrounding blanks, 1e5) that can never reach the real branch of the lexer;
            # every text here starts with a digit or a sign+digit and contains a '.'
            v = float(clean)
            bits = struct.unpack("<Q", struct.pack("<d", v))[0]
            out.append("%s\t%016x" % (t, bits))
        except ValueError:
            out.append("%s\tERR" % t)
    for t in fixed:
        add(t)
    while len(out) < n:
        sign = rng.choice(["", "", "-", "+"])
        il = rng.choice([1, 1, 2, 5, 17, 20, 40])
        fl = rng.choice([0, 1, 2, 5, 17, 25, 60])
        ip = "".join(rng.choice("0123456789") for _ in range(il))
        fp = "".join(rng.choice("0123456789") for _ in range(fl))
        k = rng.randrange(8)
        if k == 0:
            ex = "e%d" % rng.randrange(-340, 320)
        elif k == 1:
            ex = "E%s%d" % (rng.choice(["+", "-", ""]), rng.randrange(0, 330))
        elif k == 2:
            ex = rng.choice(["e", "e+", "ee5", "e5.5", "x", "e-"])
        else:
            ex = ""
        t = sign + ip + "." + fp + ex
        if rng.random() < 0.1 and len(ip) > 1:
            at = rng.randrange(1, len(ip))
            t = sign + ip[:at] + "_" + ip[at:] + "." + fp + ex
        add(t)
    with open(path, "w") as f:
        f.write("\n".join(out) + "\n")
    return {"XV_FLOAT_VECTORS": path}
