"""Extra stages run by ./check after the worker jobs: they drive other executables (the repository's own xeh binary,
Miri, sanitizer builds) and return results in the worker's format."""
import os, re, random, subprocess, hashlib, time

ROOT = os.path.dirname(os.path.abspath(__file__))
TARGET = os.path.join(ROOT, "target")


def _res():
    return {"cases": 0, "skipped": 0, "counters": {}, "max": {}, "sets": {}, "shapes": [], "samples": [], "violations": []}


def _count(res, k, n=1):
    res["counters"][k] = res["counters"].get(k, 0) + n


def _see(res, s, v):
    res["sets"].setdefault(s, [])
    if v not in res["sets"][s]:
        res["sets"][s].append(v)


# ---------------------------------------------------------------------------------------------- C10: REPL sessions
OPENERS = ["true if 11", "begin 12", "3 0 do 13", "5 case 5 of 14", "[ 15 16", "{ 17 \"k\"", ": halfdef 18", "#( 19", "#( #( 21", ": wdef #( 23"]
FAILERS = ["12x", "0xZZ", "\"unterminated", "|12 3", "no-such-word", "then", "]", ";", "loop", "#)", "#( 1 0 / #)", "#( no-such-in-meta #)",
           "5 const outside-meta", "! no-such-var", "include \"/nonexistent/file.xeh\"", ":", "local"]
TRAILERS = ["", " 777 print", " 778 779", " : leaked-word 1 ;", " 5 var leaked-var", " ] } then ; loop"]
HISTORY = ["1 2", ": hw 1 + ;", "7 var hv", "[ 1 2 ] \"s\"", "#( 3 const HC #)", "depth"]
PROBES = ["41 1 +", "depth", "5 var pv pv", ": pw 2 * ; 21 pw", "true if 1 else 2 then", "0 3 0 do I + loop", "#( 6 7 * #)", "[ 1 2 3 ] length",
          "leaked-word", "leaked-var", "halfdef", "hv", "3 hw", "HC"]
RUNTIME_FAILS = ["1 0 /", "nil 1 +", "false assert", "\"boom\" error", "[ 1 ] 5 nth", ": rt-inner 1 0 rem ; rt-inner"]
MARK = "\"=====\" println"


def _session(xeh, lines, cwd):
    p = subprocess.run([xeh], input=("\n".join(lines) + "\n").encode(), cwd=cwd, stdout=subprocess.PIPE, stderr=subprocess.PIPE, timeout=60)
    out = p.stdout.decode("utf8", "replace")
    return p.returncode, out, p.stderr.decode("utf8", "replace")


def _blocks(out):
    # the part printed after each marker line (the marker prints itself, then the REPL prints the stack)
    parts = out.split("\"=====\"\n")
    return parts[1:]


def c10_repl_stage(seed, tier, rundir, log):
    """sessions typed into the real xeh binary: H, R, P... against the twin session without R; after a line that fails at
    run time later lines must not re-run it"""
    xeh = os.environ.get("XV_REPO_BIN") or os.path.join(TARGET, "repo-bin", "release", "xeh")
    res = _res()
    if not os.path.exists(xeh):
        return ("repl stage: xeh binary missing", [({}, None, "repl stage: %s not built" % xeh)], {})
    n = 160 if tier == "quick" else 4000
    cwd = os.path.join(TARGET, "scratch", "repl")
    os.makedirs(cwd, exist_ok=True)
    rng = random.Random(seed * 7919 + 13)
    t0 = time.time()
    for i in range(n):
        res["cases"] += 1
        hist = [rng.choice(HISTORY) for _ in range(rng.randrange(4))]
        probes = [rng.choice(PROBES) for _ in range(1 + rng.randrange(4))]
        runtime = rng.random() < 0.3
        if runtime:
            r = "\"MARK\" print " + rng.choice(RUNTIME_FAILS) + rng.choice(["", " \"AFTER\" print"])
        else:
            r = " ".join([rng.choice(["", "31", ": done-before 1 ;"])] + [rng.choice(OPENERS) for _ in range(rng.randrange(3))] + [rng.choice(FAILERS)]) + rng.choice(TRAILERS)
        tail = []
        for p in probes:
            tail += [MARK, p]
        tail += [MARK]
        subject = hist + [r] + tail
        case = "\n".join(subject)
        try:
            rc, out, err = _session(xeh, subject, cwd)
        except subprocess.TimeoutExpired:
            res["violations"].append({"class": "repl:hang", "sig": "C10:repl:hang", "index": i, "case": case,
                                      "detail": "the REPL session did not finish within 60 s (a failed line is being re-run?)"})
            continue
        if rc != 0 and "CTRL-D" not in err:
            _count(res, "repl_sessions_crashed(C08)")
            continue
        _count(res, "repl_sessions")
        _see(res, "repl_kinds", "run-time-failure" if runtime else "rejected-line")
        if runtime:
            # self-relative: MARK printed once, AFTER never, and every probe block shows the probe's effect on top
            if out.count("\"MARK\"") != 1 or "\"AFTER\"" in out:
                res["violations"].append({"class": "repl:failed-line-ran-again", "sig": "C10:repl:failed-line-ran-again", "index": i, "case": case,
                                          "detail": "MARK printed %d times, AFTER printed: %s\n%s" % (out.count("\"MARK\""), "\"AFTER\"" in out, out[-600:])})
                continue
            twin = hist + ["\"MARK\" print"] + tail  # the same session with a line that prints the marker and succeeds
            # the failing word may leave operands behind or not; only require that later probes are not refused for the same error
            errs = [l for l in err.splitlines() if "division by zero" in l or "assertion failed" in l]
            if len(errs) > 1 and not any(p in ("halfdef",) for p in probes):
                res["violations"].append({"class": "repl:failed-line-ran-again", "sig": "C10:repl:failed-line-ran-again", "index": i, "case": case,
                                          "detail": "the run-time error was reported %d times:\n%s" % (len(errs), err[-600:])})
                continue
            _count(res, "repl_runtime_sessions_checked")
            continue
        # was the line really rejected? (an opener followed by its own closer is a valid program): ask a session that ends
        # right after it, whose error stream then holds nothing but that line's report
        rc0, out0, err0 = _session(xeh, hist + [r], cwd)
        if not err0.replace("CTRL-D", "").strip():
            _count(res, "repl_rejected_line_was_accepted")
            continue
        twin = hist + tail
        rc2, out2, err2 = _session(xeh, twin, cwd)
        b1, b2 = _blocks(out), _blocks(out2)
        _count(res, "repl_twin_sessions_compared")
        if b1 != b2:
            k = next((j for j in range(min(len(b1), len(b2))) if b1[j] != b2[j]), min(len(b1), len(b2)))
            res["violations"].append({"class": "repl:probe-differs", "sig": "C10:repl:probe-differs", "index": i, "case": case,
                                      "detail": "after the rejected line the REPL prints something else than the twin session that never saw it (block %d)\nsubject: %r\ntwin:    %r\nstderr: %s"
                                                % (k, b1[k:k + 1], b2[k:k + 1], err[-300:])})
            continue
        res["shapes"].append(hashlib.sha1(case.encode()).hexdigest()[:12])
        if len(res["samples"]) < 2:
            res["samples"].append({"repl_session": subject[:8]})
    note = "repl stage: %d sessions through %s in %.1fs" % (n, xeh, time.time() - t0)
    return (note, [({}, res, None)], {})


# ---------------------------------------------------------------------------------------------- C08: the REPL does not crash
REPL_LINES = ["1 2 +", "drop", ": rw 1 + ;", "5 rw", "no-such-word", "1 0 /", "[ 1 2", "]", "\"x\" print", "3 0 do I loop", "#( 6 7 * #)", "12x",
              "5 var rv", "rv 1 + ! rv", "3 0 do 1 0 / loop", "I", "\"unterminated", "", "   ", ".s", "depth", "|FF 0| u8", "8 bits", "nil if 1 then",
              "170141183460469231731687303715884105727 1 +", "\"caf\u00e9\" print", "[ 1 2 3 ] 9 nth"]
REPL_COMMANDS = ["/snapshot", "/rollback", "/trial", "/repl", "/next", "/rnext", "/nosuchcommand", "/rollback", "/snapshot"]


def c08_repl_stage(seed, tier, rundir, log):
    """random sessions typed into the real xeh binary, ordinary lines mixed with the REPL's own commands (/snapshot /rollback
    /trial /repl /next /rnext): the process must end normally (exit status 0, no panic message), whatever was typed"""
    xeh = os.environ.get("XV_REPO_BIN") or os.path.join(TARGET, "repo-bin", "release", "xeh")
    res = _res()
    if not os.path.exists(xeh):
        return ("C08 repl stage: xeh binary missing", [({}, None, "repl stage: %s not built" % xeh)], {})
    n = 240 if tier == "quick" else 6000
    cwd = os.path.join(TARGET, "scratch", "repl8")
    os.makedirs(cwd, exist_ok=True)
    rng = random.Random(seed * 6151 + 5)
    t0 = time.time()
    sessions = []
    for i in range(n):
        lines = []
        for _ in range(2 + rng.randrange(10)):
            lines.append(rng.choice(REPL_COMMANDS) if rng.random() < 0.4 else rng.choice(REPL_LINES))
        sessions.append(lines)

    def run(lines):
        try:
            return _session(xeh, lines, cwd)
        except subprocess.TimeoutExpired:
            return None
    from concurrent.futures import ThreadPoolExecutor
    with ThreadPoolExecutor(max_workers=16) as ex:
        outs = list(ex.map(run, sessions))
    for i, (lines, r) in enumerate(zip(sessions, outs)):
        res["cases"] += 1
        case = "\n".join(lines)
        if r is None:
            _count(res, "repl_sessions_timed_out")
            res["skipped"] += 1
            continue
        rc, out, err = r
        _count(res, "repl_sessions")
        for l in lines:
            if l.startswith("/"):
                _see(res, "repl_commands_typed", l)
        if rc != 0 or "panicked at" in err:
            first = next((l for l in err.splitlines() if "panicked at" in l), "exit status %s" % rc)
            loc = re.sub(r"^.*panicked at ", "", first)
            loc = re.sub(r"^/.*/(src/[a-z_0-9]+\.rs)", r"\1", loc)
            loc = re.sub(r":\d+:\d+:?$", "", loc)
            res["violations"].append({"class": "repl:crash", "sig": "C08:repl:crash:%s" % loc, "index": i, "case": case,
                                      "detail": "the xeh process ended with status %s\n%s" % (rc, err[-700:])})
            continue
        res["shapes"].append(hashlib.sha1(case.encode()).hexdigest()[:12])
        if len(res["samples"]) < 2:
            res["samples"].append({"repl_session": lines[:8]})
    note = "C08 repl stage: %d sessions through %s in %.1fs" % (n, xeh, time.time() - t0)
    return (note, [({}, res, None)], {})


# ---------------------------------------------------------------------------------------------- C16: reference vectors for reals
def c16_float_vectors(seed, tier, rundir):
    """decimal spellings with their IEEE-754 double as Python's float() converts them (an implementation independent of the
    one the lexer uses); ERR when Python rejects the spelling"""
    import struct
    rng = random.Random(seed * 104729 + 7)
    n = 20000 if tier == "quick" else 200000
    path = os.path.join(rundir, "float_vectors.tsv")
    fixed = ["0.0", "-0.0", "1.", "1.e3", "1.5e", "1.5e+", "0.1", "0.2", "0.30000000000000004", "9007199254740993.0", "9007199254740992.5",
             "1.7976931348623157e308", "1.7976931348623159e308", "1.8e308", "4.9e-324", "2.4703282292062327e-324", "2.4703282292062328e-324",
             "2.2250738585072014e-308", "2.2250738585072011e-308", "1.0e400", "1.0e-400", "123456789012345678901234567890.5", "00.5", "1.5E3",
             "1.5e+3", "1.5e-3", "+1.5", "-1.5", "1_000.5", "1._5", "1.5_e3", "1..5", "1.2.3", "1.e", "1.5e3.2", "1.5f", "1.5d", "0.1e-00007",
             "179769313486231580793728971405303415079934132710037826936173778980444968292764750946649017977587207096330286416692887910946555547851940402630657488671505820681908902000708383676273854845817711531764475730270069855571366959622842914819860834936475292719074168444365510704342711559699508093042880177904174497791.9"]
    out = []
    def add(t):
        clean = t.replace("_", "")
        try:
            # Python accepts spellings (inf, nan, surrounding blanks, 1e5) that can never reach the real branch of the lexer;
            # every text here starts with a digit or a sign+digit and contains a '.'
            v = float(clean)
            bits = struct.unpack("<Q", struct.pack("<d", v))[0]
            out.append("%s\t%016x" % (t, bits))
        except ValueError:
            out.append("%s\tERR" % t)
    for t in fixed:
        add(t)
    while len(out) < n:
        sign = rng.choice(["", "", "-", "+"])
        il = rng.choice([1, 1, 2, 5, 17, 20, 40])
        fl = rng.choice([0, 1, 2, 5, 17, 25, 60])
        ip = "".join(rng.choice("0123456789") for _ in range(il))
        fp = "".join(rng.choice("0123456789") for _ in range(fl))
        k = rng.randrange(8)
        if k == 0:
            ex = "e%d" % rng.randrange(-340, 320)
        elif k == 1:
            ex = "E%s%d" % (rng.choice(["+", "-", ""]), rng.randrange(0, 330))
        elif k == 2:
            ex = rng.choice(["e", "e+", "ee5", "e5.5", "x", "e-"])
        else:
            ex = ""
        t = sign + ip + "." + fp + ex
        if rng.random() < 0.1 and len(ip) > 1:
            at = rng.randrange(1, len(ip))
            t = sign + ip[:at] + "_" + ip[at:] + "." + fp + ex
        add(t)
    with open(path, "w") as f:
        f.write("\n".join(out) + "\n")
    return {"XV_FLOAT_VECTORS": path}


# ---------------------------------------------------------------------------------------------- sanitizer stages
def _run_parallel(cmds, envs, cwd, timeout_s, ncpu=16):
    """cmds: list of argv; returns list of (rc, stderr_text) in order; rc None = watchdog"""
    procs, out = [], [None] * len(cmds)
    pending = list(enumerate(cmds))
    running = []
    t0 = time.time()
    while pending or running:
        while pending and len(running) < ncpu:
            i, c = pending.pop(0)
            errf = open(os.path.join(cwd, "san-%d.stderr" % i), "wb")
            p = subprocess.Popen(c, cwd=envs.get("cwd", ROOT), env=envs["env"], stdout=subprocess.DEVNULL, stderr=errf)
            running.append((i, p, errf))
        time.sleep(0.05)
        for item in list(running):
            i, p, errf = item
            rc = p.poll()
            if rc is None and time.time() - t0 > timeout_s:
                p.kill()
                p.wait()
                rc = None
            elif rc is None:
                continue
            running.remove(item)
            errf.close()
            out[i] = (rc, open(os.path.join(cwd, "san-%d.stderr" % i), "rb").read().decode("utf8", "replace"))
    return out


def memcheck_stage(prop, mode, cases_quick, cases_thorough):
    """the release worker under valgrind memcheck on a sample of the same workload (other seed): invalid reads/writes,
    uses of uninitialised values and definite leaks are reports; a report is a violation"""
    def stage(seed, tier, rundir, log):
        xv = os.path.join(TARGET, "release", "xv")
        n = 16
        per = (cases_quick if tier == "quick" else cases_thorough) // n
        d = os.path.join(rundir, "memcheck")
        os.makedirs(d, exist_ok=True)
        cmds = []
        for i in range(n):
            out = os.path.join(d, "mc-%d.json" % i)
            cmds.append(["valgrind", "-q", "--error-exitcode=99", "--leak-check=full", "--errors-for-leak-kinds=definite", "--num-callers=30",
                         xv, prop, "--seed", str(seed * 1000 + 7), "--shard", str(i), "--nshards", str(n), "--cases", str(per), "--tier", tier, "--out", out]
                        + (["--mode", mode] if mode else []))
        env = dict(os.environ)
        env["RUST_BACKTRACE"] = "0"
        env["XV_CASE_CPU_LIMIT_S"] = "2000"
        t0 = time.time()
        res_all = _run_parallel(cmds, {"env": env}, d, 1500 if tier == "quick" else 10800)
        results = []
        reports = 0
        for i, (rc, err) in enumerate(res_all):
            outp = os.path.join(d, "mc-%d.json" % i)
            if rc == 0 and os.path.exists(outp):
                try:
                    r = json_load(outp)
                    r["counters"] = {"memcheck:" + k if not k.startswith("memcheck") else k: v for k, v in r["counters"].items() if k in ("evaluations",)}
                    r["counters"]["memcheck_cases_without_report"] = r["cases"]
                    r["sets"], r["max"], r["samples"], r["shapes"] = {}, {}, [], []
                    r["cases"] = 0
                    results.append(({}, r, None))
                except Exception as e:
                    results.append(({}, None, "memcheck shard %d: bad output %s" % (i, e)))
            elif rc == 99:
                reports += 1
                blocks = [b for b in err.split("\n==") if "Invalid" in b or "uninitialised" in b or "definitely lost" in b or "Mismatched" in b]
                first = ("==" + blocks[0])[:1500] if blocks else err[-1500:]
                frames = [l.split(": ", 1)[-1].strip() for l in first.splitlines() if ("xeh::" in l or "/repo/" in l)]
                sig = "%s:memcheck:%s" % (prop, (frames[0][:80] if frames else "report"))
                r = _res()
                r["violations"].append({"class": "memcheck", "sig": sig, "index": -1, "case": "valgrind memcheck, shard %d of the %s workload (seed %d)" % (i, prop, seed * 1000 + 7), "detail": first})
                results.append(({}, r, None))
            elif rc is None:
                results.append(({}, None, "memcheck shard %d hit the watchdog (inconclusive)" % i))
            elif "memory allocation of" in err:
                r = _res()
                _count(r, "memcheck_excluded_alloc_not_modest")
                results.append(({}, r, None))
            else:
                results.append(({}, None, "memcheck shard %d exited with %s: %s" % (i, rc, err[-300:])))
        note = "memcheck stage: %d valgrind processes x %d cases of %s%s in %.1fs, %d with reports" % (n, per, prop, "/" + mode if mode else "", time.time() - t0, reports)
        return (note, results, {})
    return stage


def json_load(p):
    import json
    return json.load(open(p))


def miri_stage(prop, mode, cases_per_proc, nprocs=16):
    """the worker under the Miri interpreter (undefined behaviour, invalid aliasing in the unsafe parts and their
    dependencies, leaks) on small cases: every monitor shrinks its workload when it runs under Miri. Thorough tier only."""
    def stage(seed, tier, rundir, log):
        d = os.path.join(rundir, "miri")
        os.makedirs(d, exist_ok=True)
        cwd = os.path.join(ROOT, "harness-san")
        env = dict(os.environ)
        env["CARGO_NET_OFFLINE"] = "true"
        env["MIRIFLAGS"] = "-Zmiri-disable-isolation"
        env["RUST_BACKTRACE"] = "0"
        t0 = time.time()
        # build once (an unknown property makes the worker exit at once)
        b = subprocess.run(["cargo", "+nightly", "miri", "run", "--offline", "--quiet", "--target-dir", os.path.join(TARGET, "san"), "--", "C00"], cwd=cwd, env=env, stdout=subprocess.PIPE, stderr=subprocess.STDOUT, text=True)
        if "unknown property" not in b.stdout:
            return ("miri stage: build failed", [({}, None, "miri stage: the interpreter build failed (inconclusive): %s" % b.stdout[-400:])], {})
        cmds = []
        for i in range(nprocs):
            out = os.path.join(d, "miri-%d.json" % i)
            cmds.append(["cargo", "+nightly", "miri", "run", "--offline", "--quiet", "--target-dir", os.path.join(TARGET, "san"), "--", prop, "--seed", str(seed * 100 + 3), "--shard", str(i), "--nshards", str(nprocs),
                         "--cases", str(cases_per_proc), "--tier", tier, "--out", out] + (["--mode", mode] if mode else []))
        res_all = _run_parallel(cmds, {"env": env, "cwd": cwd}, d, 7200)
        results = []
        reports = 0
        for i, (rc, err) in enumerate(res_all):
            outp = os.path.join(d, "miri-%d.json" % i)
            if rc == 0 and os.path.exists(outp):
                r = json_load(outp)
                keep = {"miri_cases_without_report": r["cases"]}
                viol = r["violations"]
                r = _res()
                r["counters"] = keep
                r["violations"] = viol
                results.append(({}, r, None))
            elif rc is None:
                results.append(({}, None, "miri process %d hit the watchdog (inconclusive)" % i))
            elif "Undefined Behavior" in err or "memory leaked" in err or "error: " in err:
                reports += 1
                lines = err.splitlines()
                k = next((j for j, l in enumerate(lines) if "Undefined Behavior" in l or "memory leaked" in l or l.startswith("error")), 0)
                first = "\n".join(lines[k:k + 25])
                where = next((l.strip() for l in lines[k:] if "/repo/src" in l or "xeh::" in l), "report")
                r = _res()
                r["violations"].append({"class": "miri", "sig": "%s:miri:%s" % (prop, where[:90]), "index": -1,
                                        "case": "Miri, process %d of the %s%s workload (seed %d, %d small cases)" % (i, prop, "/" + mode if mode else "", seed * 100 + 3, cases_per_proc),
                                        "detail": first[:1800]})
                results.append(({}, r, None))
            else:
                results.append(({}, None, "miri process %d exited with %s: %s" % (i, rc, err[-300:])))
        note = "miri stage: %d interpreter processes x %d small cases of %s%s in %.0fs, %d with reports" % (nprocs, cases_per_proc, prop, "/" + mode if mode else "", time.time() - t0, reports)
        return (note, results, {})
    return stage


# ---------------------------------------------------------------------------------------------- C09: exact arithmetic vectors
def c09_arith_vectors(seed, tier, rundir):
    """operand tuples with the exact result computed by Python's unbounded integers / IEEE doubles, so that the oracle of the
    vector shard shares no arithmetic primitive with the implementation. One line: word TAB a TAB b TAB kind TAB value
    (kind: exact = representable i128 result; wrap = exact result is outside i128, value is its two's-complement wrap;
    div0; flag; real = hex bits of the double)"""
    import struct
    rng = random.Random(seed * 15485863 + 11)
    n = 40000 if tier == "quick" else 1000000
    I_MIN, I_MAX, M = -(1 << 127), (1 << 127) - 1, 1 << 128
    def gi():
        k = rng.randrange(12)
        if k == 0: return rng.choice([0, 1, -1, 2, -2])
        if k == 1: return rng.choice([I_MIN, I_MAX, I_MIN + 1, I_MAX - 1])
        if k == 2: return rng.choice([-(1 << 63), (1 << 63) - 1, 1 << 63, 1 << 64, (1 << 64) - 1, -(1 << 64)])
        if k in (3, 4):
            e = rng.randrange(127)
            return rng.choice([1, -1]) * ((1 << e) + rng.choice([-1, 0, 1]))
        if k == 5: return rng.randrange(-1000, 1000)
        return rng.randrange(I_MIN, I_MAX + 1) >> rng.randrange(128)
    def wrap(x):
        x &= M - 1
        return x - M if x >> 127 else x
    def fbits(x):
        return "%016x" % struct.unpack("<Q", struct.pack("<d", x))[0]
    def gr():
        k = rng.randrange(8)
        if k == 0: return rng.choice([0.0, -0.0, 1.0, -1.0, 0.5, 1.5, 2.5, -2.5])
        if k == 1: return rng.choice([float("inf"), float("-inf"), 5e-324, -5e-324, 2.2250738585072014e-308, 1.7976931348623157e308])
        if k == 2: return float(rng.randrange(-(1 << 60), 1 << 60))
        return struct.unpack("<d", struct.pack("<Q", rng.getrandbits(64)))[0]
    out = []
    int2 = ["+", "-", "*", "/", "rem", "min", "max", "<", "<=", ">", ">=", "==", "<>", "band", "bor", "bxor", "bsl", "bsr"]
    int1 = ["neg", "abs", "bnot", "popcnt", ">real", "zero?", "positive?", "negative?"]
    real2 = ["+", "-", "*", "/", "<", "<=", ">", ">=", "==", "<>", "min", "max"]
    while len(out) < n:
        kind = rng.randrange(10)
        if kind < 5:
            w = rng.choice(int2)
            a, b = gi(), gi()
            if w in ("bsl", "bsr"):
                b = rng.randrange(128)
            if w in ("/", "rem") and rng.random() < 0.2:
                b = 0
            if w in ("/", "rem") and b == 0:
                out.append("%s\t%d\t%d\tdiv0\t0" % (w, a, b)); continue
            if w == "+": r = a + b
            elif w == "-": r = a - b
            elif w == "*": r = a * b
            elif w == "/":
                q = abs(a) // abs(b)
                r = q if (a < 0) == (b < 0) else -q
            elif w == "rem":
                q = abs(a) // abs(b)
                q = q if (a < 0) == (b < 0) else -q
                r = a - b * q
            elif w == "min": r = min(a, b)
            elif w == "max": r = max(a, b)
            elif w == "band": r = a & b
            elif w == "bor": r = a | b
            elif w == "bxor": r = a ^ b
            elif w == "bsl": r = a << b
            elif w == "bsr": r = a >> b
            else:
                f = {"<": a < b, "<=": a <= b, ">": a > b, ">=": a >= b, "==": a == b, "<>": a != b}[w]
                out.append("%s\t%d\t%d\tflag\t%s" % (w, a, b, "true" if f else "false")); continue
            if I_MIN <= r <= I_MAX:
                out.append("%s\t%d\t%d\texact\t%d" % (w, a, b, r))
            else:
                out.append("%s\t%d\t%d\twrap\t%d" % (w, a, b, wrap(r)))
        elif kind < 7:
            w = rng.choice(int1)
            a = gi()
            if w == "neg": r = -a
            elif w == "abs": r = abs(a)
            elif w == "bnot": r = ~a
            elif w == "popcnt": r = bin(a & (M - 1)).count("1")
            elif w == ">real":
                out.append("%s\t%d\t-\treal\t%s" % (w, a, fbits(float(a)))); continue
            else:
                f = {"zero?": a == 0, "positive?": a > 0, "negative?": a < 0}[w]
                out.append("%s\t%d\t-\tflag\t%s" % (w, a, "true" if f else "false")); continue
            if I_MIN <= r <= I_MAX:
                out.append("%s\t%d\t-\texact\t%d" % (w, a, r))
            else:
                out.append("%s\t%d\t-\twrap\t%d" % (w, a, wrap(r)))
        elif kind < 9:
            w = rng.choice(real2)
            a, b = gr(), gr()
            if a != a or b != b:
                continue
            if w == "/" and rng.random() < 0.2:
                b = rng.choice([0.0, -0.0])
            if w == "/" and b == 0.0:
                out.append("%s\tr%s\tr%s\tdiv0\t0" % (w, fbits(a), fbits(b))); continue
            if w in ("+", "-", "*", "/"):
                try:
                    r = {"+": a + b, "-": a - b, "*": a * b}[w] if w != "/" else a / b
                except OverflowError:
                    continue
                if r != r:
                    out.append("%s\tr%s\tr%s\tnan\t0" % (w, fbits(a), fbits(b)))
                else:
                    out.append("%s\tr%s\tr%s\treal\t%s" % (w, fbits(a), fbits(b), fbits(r)))
            elif w in ("min", "max"):
                if a == b:
                    continue  # equal operands (incl. +-0): either may be returned
                r = min(a, b) if w == "min" else max(a, b)
                out.append("%s\tr%s\tr%s\treal\t%s" % (w, fbits(a), fbits(b), fbits(r)))
            else:
                f = {"<": a < b, "<=": a <= b, ">": a > b, ">=": a >= b, "==": a == b, "<>": a != b}[w]
                out.append("%s\tr%s\tr%s\tflag\t%s" % (w, fbits(a), fbits(b), "true" if f else "false"))
        else:
            # >int of a double inside the i128 range: truncation
            a = gr()
            if a != a or abs(a) >= 1.7e38:
                continue
            out.append(">int\tr%s\t-\texact\t%d" % (fbits(a), int(a)))
    path = os.path.join(rundir, "arith_vectors.tsv")
    with open(path, "w") as f:
        f.write("\n".join(out) + "\n")
    return {"XV_ARITH_VECTORS": path}
