//! C01 — structured control flow compiles to bytecode that means what the source says.
//! Oracle: the direct structural evaluator of g1.rs.
use super::Monitor;
use crate::g1::*;
use crate::g1gen::*;
use crate::g1run::*;
use crate::util::*;
use crate::Args;
use std::collections::BTreeMap;
use xeh::prelude::*;

pub struct C01 {
    seed: u64,
    boot: Xstate,
}

pub const FUEL: u64 = 30_000;

impl C01 {
    pub fn new(a: &Args) -> C01 {
        let mut boot = Xstate::boot().expect("boot");
        boot.intercept_stdout(true);
        C01 { seed: a.seed, boot }
    }
}

pub struct Case01 {
    pub prog: Vec<Node>,
    pub rendered: Rendered,
    pub profile: &'static str,
    pub planted: Option<&'static str>,
    pub stats: GenStats,
}

pub fn gen_case(tag: &str, seed: u64, idx: u64) -> Case01 {
    let mut rng = Rng::for_case(tag, seed, idx);
    let p = rng.below(20);
    let (profile, plant, div) = if p < 14 {
        ("safe", false, false)
    } else if p < 17 {
        ("planted-failure", true, false)
    } else {
        ("divergent", false, true)
    };
    let max_nodes = [30usize, 60, 120, 200][rng.below(4)];
    let max_depth = 3 + rng.below(5);
    let fancy = rng.flip();
    let (prog, planted, stats) = {
        let mut g = Gen::new(&mut rng, GenOpts { max_nodes, max_depth, plant_failure: plant, divergent: div, allow_leaks: true });
        let prog = g.program();
        (prog, g.planted.as_ref().map(|p| p.kind), g.stats.clone())
    };
    let rendered = render(&prog, &mut rng, fancy);
    Case01 { prog, rendered, profile, planted, stats }
}

/// run reference and real; returns (mismatch, reference outcome, note)
pub fn check_program(boot: &Xstate, prog: &[Node], rendered: &Rendered, obs: Option<&mut Obs>) -> (Option<Mismatch>, Outcome, &'static str) {
    let reference = Evaluator::run(prog, FUEL, vec![], BTreeMap::new());
    if reference.unspecified {
        return (None, reference, "unspecified");
    }
    let mut xs = boot.clone();
    if reference.exhausted {
        if !reference.inside_infinite {
            return (None, reference, "fuel");
        }
        // structurally infinite: the real run must still be inside when its budget ends
        let _ = xs.set_insn_limit(Some((FUEL / 4) as usize));
        let real = run_real(&mut xs, &rendered.src);
        if let Some(p) = &real.panic {
            return (Some(Mismatch { class: "panic".into(), detail: p.clone() }), reference, "divergent");
        }
        let m = match &real.result {
            Ok(()) => Some(Mismatch {
                class: "infinite-loop-fell-through".into(),
                detail: format!("a structurally infinite loop terminated; stack [{}]", crate::render::show_vec(&real.stack)),
            }),
            Err(_) if real.err_class.as_deref() == Some("limit-insn") => {
                if reference.out.starts_with(&real.out) {
                    None
                } else {
                    Some(Mismatch { class: "divergent-output".into(), detail: format!("output {:?} is not a prefix of the reference's {:?}", real.out, &reference.out[..reference.out.len().min(200)]) })
                }
            }
            Err(e) => Some(Mismatch { class: "divergent-error".into(), detail: format!("expected to run out of budget inside the loop, got {}", crate::render::show_err(e)) }),
        };
        return (m, reference, "divergent");
    }
    // every AST node costs at most a handful of instructions: 64x is generous, so running out is a finding
    let limit = (64 * reference.steps + 1000) as usize;
    let _ = xs.set_insn_limit(Some(limit));
    let _ = xs.set_stack_limit(Some(200_000));
    // records of loops that an earlier, failed program left behind are not this program's
    let loops0 = xs.verif_dump().loops.len();
    let mut real = run_real(&mut xs, &rendered.src);
    real.loops_left = real.loops_left.saturating_sub(loops0);
    if let Some(o) = obs {
        code_stats(&xs, o);
    }
    let m = compare(&reference, rendered, &real, &xs);
    (m, reference, "compared")
}

impl C01 {
    fn one(&mut self, idx: u64, obs: &mut Obs) {
        let case = gen_case("C01", self.seed, idx);
        obs.count(&format!("profile:{}", case.profile));
        // one program in four runs on an interpreter whose previous program was aborted by a run-time error inside
        // loops / a called word: nothing of that (loop records, frames) may be visible to this program
        let history: Option<&str> = match idx % 12 {
            3 => Some("3 0 do 1 0 / loop"),
            7 => Some(": prelude-word 4 1 do 2 0 do nil 1 + loop loop ; prelude-word"),
            11 => Some("[ 7 8 ] foreach 5 1 do nil 1 + loop loop"),
            _ => None,
        };
        let boot_h = {
            let mut b = self.boot.clone();
            if let Some(h) = history {
                let _ = b.set_insn_limit(Some(10_000));
                let r = catch(|| b.eval(h));
                if !matches!(r, Ok(Err(_))) {
                    obs.count("history:setup_failed");
                }
                while b.data_depth() > 0 {
                    if b.pop_data().is_err() {
                        break;
                    }
                }
                let _ = b.read_stdout();
                obs.count("programs_after_an_aborted_program");
            }
            b
        };
        let (m, reference, note) = check_program(&boot_h, &case.prog, &case.rendered, Some(obs));
        // structure statistics
        let mut sk = String::new();
        let mut pairs = Vec::new();
        let mut maxd = 0;
        skeleton(&case.prog, &mut sk, &mut pairs, "top", 0, &mut maxd);
        for (a, b) in &pairs {
            obs.see("nesting_pairs", &format!("{}>{}", a, b));
        }
        obs.maxi("max_nesting", maxd as u64);
        let nontrivial = maxd >= 2 && (sk.contains("do(") || sk.contains("case(") || sk.contains("until(") || sk.contains("while(") || sk.contains("repeat("));
        if nontrivial && note != "unspecified" && note != "fuel" {
            obs.shape(fnv1a(sk.as_bytes()));
        }
        obs.add("empty_bodies", case.stats.empty_bodies as u64);
        obs.add("zero_trip_loops", case.stats.zero_trip as u64);
        obs.add("breaks", case.stats.breaks as u64);
        obs.add("redefinitions", case.stats.redefinitions as u64);
        obs.add("recursive_defs", case.stats.recursive_defs as u64);
        obs.add("locals", case.stats.locals as u64);
        obs.add("locals_in_loops", case.stats.loop_locals as u64);
        obs.add("var_redeclarations", case.stats.var_redeclarations as u64);
        obs.add("local_redeclarations", case.stats.local_redeclarations as u64);
        obs.add("case_without_default_code", case.stats.case_no_default as u64);
        obs.maxi("max_call_depth", reference.max_call_depth as u64);
        match note {
            "unspecified" => {
                obs.skipped += 1;
                obs.count("skipped:generator-unspecified");
            }
            "fuel" => {
                obs.skipped += 1;
                obs.count("skipped:fuel");
            }
            "divergent" => obs.count("divergent_confirmed_or_checked"),
            _ => {
                if let Some(f) = &reference.fail {
                    obs.count(&format!("failing:{}:{}", if reference.build_failure { "build" } else { "run" }, f.class));
                    if let Some(k) = case.planted {
                        obs.see("planted_kinds_matched", k);
                    }
                } else {
                    obs.count("succeeding_programs_compared");
                }
            }
        }
        if let Some(m) = m {
            // minimise while the same mismatch class persists
            let boot = boot_h.clone();
            let class = m.class.clone();
            let small = shrink(&case.prog, |cand| {
                let mut r2 = Rng::new(1);
                let rd = render(cand, &mut r2, false);
                match check_program(&boot, cand, &rd, None) {
                    (Some(m2), _, _) => m2.class == class,
                    _ => false,
                }
            });
            let mut r2 = Rng::new(1);
            let rd = render(&small, &mut r2, false);
            let (m2, ref2, _) = check_program(&boot_h, &small, &rd, None);
            let detail = m2.map(|x| x.detail).unwrap_or(m.detail.clone());
            let mut sk2 = String::new();
            let mut p2 = Vec::new();
            let mut d2 = 0;
            skeleton(&small, &mut sk2, &mut p2, "top", 0, &mut d2);
            obs.violation(Violation {
                class: m.class.clone(),
                sig: format!("C01:{}:{}", m.class, sk2),
                index: idx,
                case: format!("{}minimised: {}\nreference: fail={:?} stack=[{}] out={:?}\noriginal source: {}", history.map(|h| format!("(after the aborted program `{}`) ", h)).unwrap_or_default(), rd.src, ref2.fail, show_vals(&ref2.stack), ref2.out, case.rendered.src),
                detail,
            });
        }
        if idx % 997 == 0 {
            obs.sample(J::obj(vec![("index", J::Int(idx as i128)), ("profile", J::s(case.profile)), ("source", J::s(case.rendered.src.clone()))]));
        }
    }
}

impl Monitor for C01 {
    fn run_case(&mut self, idx: u64, obs: &mut Obs) {
        self.one(idx, obs);
    }
    fn boot_mut(&mut self) -> Option<&mut Xstate> {
        Some(&mut self.boot)
    }
    fn describe(&mut self, idx: u64) -> String {
        let c = gen_case("C01", self.seed, idx);
        format!("[{}] {}", c.profile, c.rendered.src)
    }
}
