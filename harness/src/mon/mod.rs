use crate::util::Obs;
use crate::Args;

pub trait Monitor {
    fn run_case(&mut self, idx: u64, obs: &mut Obs);
    /// human-readable reconstruction of the case (used for replay / crash attribution)
    fn describe(&mut self, idx: u64) -> String;
    fn finish(&mut self, _obs: &mut Obs) {}
    /// the interpreter every case starts from, for monitors whose property does not depend on reverse-step recording:
    /// the worker switches recording on for half of the cases (the same words then run through the logging code paths)
    fn boot_mut(&mut self) -> Option<&mut xeh::prelude::Xstate> {
        None
    }
}

pub mod c01;
pub mod c02;
pub mod c03;
pub mod c04;
pub mod c05;
pub mod c06;
pub mod c07;
pub mod c08;
pub mod c09;
pub mod c10;
pub mod c11;
pub mod c12;
pub mod c13;
pub mod c14;
pub mod c15;
pub mod c16;
pub mod c17;
pub mod c18;

pub fn create(a: &Args) -> Option<Box<dyn Monitor>> {
    match a.prop.as_str() {
        "C01" => Some(Box::new(c01::C01::new(a))),
        "C02" => Some(Box::new(c02::C02::new(a))),
        "C03" => Some(Box::new(c03::C03::new(a))),
        "C04" => Some(Box::new(c04::C04::new(a))),
        "C05" => Some(Box::new(c05::C05::new(a))),
        "C06" => Some(Box::new(c06::C06::new(a))),
        "C07" => Some(Box::new(c07::C07::new(a))),
        "C08" => Some(Box::new(c08::C08::new(a))),
        "C09" => Some(Box::new(c09::C09::new(a))),
        "C10" => Some(Box::new(c10::C10::new(a))),
        "C11" => Some(Box::new(c11::C11::new(a))),
        "C12" => Some(Box::new(c12::C12::new(a))),
        "C13" => Some(Box::new(c13::C13::new(a))),
        "C14" => Some(Box::new(c14::C14::new(a))),
        "C15" => Some(Box::new(c15::C15::new(a))),
        "C16" => Some(Box::new(c16::C16::new(a))),
        "C17" => Some(Box::new(c17::C17::new(a))),
        "C18" => Some(Box::new(c18::C18::new(a))),
        _ => None,
    }
}
