//! C11 — meta-evaluation is sealed and equivalent to inlining its result.
//! Oracles: metamorphic pair P / P' (the block replaced by the literal value(s) that the same expression yields under
//! ordinary evaluation, last result first); sealing probes that must fail; invariants at the dump hook around a block
//! and around compile().
use super::Monitor;
use crate::g2::gen_g2;
use crate::mon::c01::gen_case;
use crate::mon::c15::{observation, truncate};
use crate::render::*;
use crate::util::*;
use crate::Args;
use xeh::prelude::*;

pub struct C11 {
    seed: u64,
    boot: Xstate,
}

impl C11 {
    pub fn new(a: &Args) -> C11 {
        let mut boot = Xstate::boot().expect("boot");
        boot.intercept_stdout(true);
        boot.intercept_output(true).expect("intercept output");
        let _ = boot.set_insn_limit(Some(20_000));
        let _ = boot.set_stack_limit(Some(5_000));
        // a few global words that blocks may call
        boot.eval(": gw0 5 ; : gw1 7 ; : gw2 11 ;").expect("global words");
        C11 { seed: a.seed, boot }
    }
}

/// source text of a value (only value kinds the expressions below can produce)
fn literal(c: &Cell) -> Option<String> {
    if let Some(tags) = c.tags() {
        // a tagged value written out: the bare value, then its tag map attached
        return Some(format!("{} {} with-tags", literal(c.value())?, literal(&Cell::Map(tags.clone()))?));
    }
    Some(match c {
        Cell::Nil => "nil".into(),
        Cell::Flag(b) => format!("{}", b),
        Cell::Int(i) => format!("{}", i),
        Cell::Real(r) => {
            let t = format!("{:?}", r);
            if !r.is_finite() || !t.contains('.') || t.contains('e') {
                return None;
            }
            t
        }
        Cell::Str(s) => {
            if s.chars().any(|c| c == '"' || c == '\\' || c == '\u{201c}' || c == '\u{201d}' || (c as u32) < 0x20) {
                return None;
            }
            format!("\"{}\"", s)
        }
        Cell::Bitstr(b) => format!("|{}|", b.bits().map(|x| if x == 1 { 'x' } else { '.' }).collect::<String>()),
        Cell::Vector(v) => {
            let mut s = String::from("[ ");
            for x in v.iter() {
                s.push_str(&literal(x)?);
                s.push(' ');
            }
            s.push(']');
            s
        }
        Cell::Map(m) => {
            let mut s = String::from("{ ");
            for (k, v) in m.iter() {
                s.push_str(&literal(v)?);
                s.push(' ');
                s.push_str(&literal(k)?);
                s.push(' ');
            }
            s.push('}');
            s
        }
        _ => return None,
    })
}

struct Expr {
    src: String,
    class: &'static str,
    /// constants the expression defines (name -> must be replaced by its value in P')
    consts: Vec<String>,
}

fn int_expr(rng: &mut Rng, depth: usize) -> String {
    if depth >= 3 || rng.chance(1, 3) {
        return format!("{}", rng.range(-9, 30));
    }
    let a = int_expr(rng, depth + 1);
    let b = int_expr(rng, depth + 1);
    match rng.below(8) {
        0 => format!("{} {} +", a, b),
        1 => format!("{} {} *", a, b),
        2 => format!("{} {} -", a, b),
        3 => format!("{} {} max", a, b),
        4 => format!("{} {} swap drop", a, b),
        5 => format!("{} dup *", a),
        6 => format!("{} {} over + +", a, b),
        _ => format!("{} {} 3 + rem", a, b),
    }
}

fn gen_expr(rng: &mut Rng, k: u64, allow_nested: bool) -> Expr {
    let seq = k % 1000;
    match rng.below(if allow_nested { 19 } else { 15 }) {
        18 => Expr { src: format!("gw{} 1 + gw{} *", seq % 3, (seq + 1) % 3), class: "uses-global-words", consts: vec![] },
        10 => {
            // results that carry tags (formatting tag, user tags): re-emitted with their tags
            let v = rng.pick_str(&["255", "-7", "\"s\"", "nil", "[ 1 2 ]", "|F0|", "true", "1.5", "-0.25", "[ 2.5 ]", "{ 1 \"a\" }"]).to_string();
            let t = rng.pick_str(&["^hex", "^bin", "^{ 1 \"k\" ^}", "^{ [ 2 ] \"t\" \"x\" \"u\" ^}", "^hex ^{ 3 \"k\" ^}", "7 \"k\" insert-tag"]).to_string();
            Expr { src: format!("{} {}", v, t), class: "tagged-value", consts: vec![] }
        }
        11 => {
            let v = rng.pick_str(&["255", "17", "1.5", "-2.75", "\"s\"", "[ 1 ]", "nil", "|0F|", "true"]).to_string();
            let t = rng.pick_str(&["^hex", "^{ 7 \"k\" ^}", "3 \"n\" insert-tag"]).to_string();
            Expr { src: format!("{} {} const MT{} MT{}", v, t, seq, seq), class: "tagged-const", consts: vec![format!("MT{}", seq)] }
        }
        12 => Expr { src: format!(": sq{} dup * ; {} const MK{} MK{} sq{} const MK{} MK{} 1 +", seq, rng.range(2, 9), seq, seq, seq, seq, seq), class: "const-redefined", consts: vec![format!("MK{}", seq)] },
        13 => Expr { src: format!("{} const MA{} {} const MB{} : h{} 1 ; {} const MA{} MA{} MB{} +", rng.below(9), seq, rng.below(9), seq, seq, 10 + rng.below(9), seq, seq, seq), class: "const-redefined-2", consts: vec![format!("MA{}", seq), format!("MB{}", seq)] },
        14 => Expr { src: format!(": lw{} local a local b a b - a * ; {} {} lw{}", seq, int_expr(rng, 2), int_expr(rng, 2), seq), class: "local-word-with-locals", consts: vec![] },
        15 => {
            let inner = gen_expr(rng, k + 1, false);
            Expr { src: format!("#( {} #) depth collect", inner.src), class: "nested-meta", consts: inner.consts }
        }
        16 => Expr { src: format!(": g{} ; {} const MN{} #( {} const MN{} #) MN{}", seq, rng.below(9), seq, 10 + rng.below(9), seq, seq), class: "const-redefined-in-nested", consts: vec![format!("MN{}", seq)] },
        17 => Expr { src: format!("#( {} #) #( {} #) +", int_expr(rng, 2), int_expr(rng, 2)), class: "nested-meta-2", consts: vec![] },
        0 | 1 => Expr { src: int_expr(rng, 0), class: "arith", consts: vec![] },
        2 => Expr { src: format!("{} {} {} rot swap", int_expr(rng, 2), int_expr(rng, 2), int_expr(rng, 2)), class: "multi-3", consts: vec![] },
        3 => Expr { src: format!("{} \"s{}\"", int_expr(rng, 2), rng.below(9)), class: "multi-2", consts: vec![] },
        4 => Expr { src: format!("[ {} {} \"v\" ] reverse", int_expr(rng, 2), int_expr(rng, 2)), class: "vector", consts: vec![] },
        5 => Expr { src: format!("[ \"a\" \"b{}\" ] concat", rng.below(9)), class: "string", consts: vec![] },
        6 => Expr { src: format!(": mw{} dup * 1 + ; {} mw{}", seq, int_expr(rng, 2), seq), class: "local-word", consts: vec![] },
        7 => Expr { src: format!(": ma{} 2 * ; : mb{} ma{} ma{} ; {} mb{}", seq, seq, seq, seq, rng.range(0, 9), seq), class: "local-words-2", consts: vec![] },
        8 => Expr { src: format!("{} const MC{} MC{} 1 +", int_expr(rng, 2), seq, seq), class: "const", consts: vec![format!("MC{}", seq)] },
        9 => Expr { src: format!("{{ {} \"k\" }} \"k\" get |F0x.| swap u8be!", int_expr(rng, 3).split(' ').next().unwrap_or("1").trim_start_matches('-')), class: "map+bitstr", consts: vec![] },
        _ => Expr { src: int_expr(rng, 1), class: "arith", consts: vec![] },
    }
}

/// the same expression for ordinary evaluation: a block nested in a block shares its parent's stack, so its markers
/// can simply be dropped; `const` (meta only) becomes `var`
fn ordinary(src: &str) -> String {
    src.split(' ').filter(|t| *t != "#(" && *t != "#)").map(|t| if t == "const" { "var" } else { t }).collect::<Vec<_>>().join(" ")
}

fn submit(xs: &mut Xstate, src: &str, style: usize) -> Result<Result<(), Xerr>, (String, String)> {
    catch(|| {
        if style == 0 {
            xs.eval(src)
        } else {
            xs.compile(src)?;
            xs.run()
        }
    })
}

/// the same source brought in as a file: eval_file, or compile_file followed by run
fn submit_file(xs: &mut Xstate, src: &str, style: usize) -> Result<Result<(), Xerr>, (String, String)> {
    use std::sync::atomic::{AtomicU64, Ordering};
    static N: AtomicU64 = AtomicU64::new(0);
    let path = format!("/verif/target/scratch/c11-{}-{}.xeh", std::process::id(), N.fetch_add(1, Ordering::Relaxed) % 4);
    if std::fs::write(&path, src).is_err() {
        return submit(xs, src, style);
    }
    let p = Xstr::from(path.as_str());
    catch(|| {
        if style == 0 {
            xs.eval_file(p)
        } else {
            xs.compile_file(p)?;
            xs.run()
        }
    })
}

const POSITIONS: &[&str] = &["top", "vec", "map-value", "tag-value", "definition", "meta-in-meta", "definition-in-vec", "if-branch", "loop-body", "definition-with-locals"];

impl C11 {
    fn fail(&self, obs: &mut Obs, idx: u64, class: String, case: String, detail: String) {
        obs.violation(Violation { class: class.clone(), sig: format!("C11:{}", class), index: idx, case, detail });
    }

    fn pair_case(&mut self, idx: u64, obs: &mut Obs) {
        let mut rng = Rng::for_case("C11", self.seed, idx);
        let e = gen_expr(&mut rng, idx, true);
        // value(s) of e under ordinary evaluation, in a scratch interpreter
        let mut scratch = self.boot.clone();
        let r = catch(|| scratch.eval(&ordinary(&e.src)));
        let values: Option<Vec<Cell>> = match r {
            Ok(Ok(())) => Some((0..scratch.data_depth()).rev().filter_map(|i| scratch.get_data(i).cloned()).collect()),
            Ok(Err(_)) => None,
            Err(_) => {
                obs.skipped += 1;
                obs.count("skipped:panic(C08)");
                return;
            }
        };
        // constants defined by e (their values, for P')
        let mut const_vals = vec![];
        for c in &e.consts {
            if let Ok(v) = scratch.get_var_value(c) {
                const_vals.push((c.clone(), v.clone()));
            }
        }
        let position = *rng.pick(POSITIONS);
        let nres = values.as_ref().map(|v| v.len()).unwrap_or(0);
        // the block's results are emitted last result first - except for a block nested directly in another meta block,
        // which shares its parent's stack (both pinned by the existing suite)
        let inline: Option<String> = values.as_ref().and_then(|vs| {
            let it: Vec<&Cell> = if position == "meta-in-meta" { vs.iter().collect() } else { vs.iter().rev().collect() };
            it.into_iter().map(literal).collect::<Option<Vec<_>>>()
        }).map(|v| v.join(" "));
        let inline = match (&values, inline) {
            (Some(_), None) => {
                obs.skipped += 1;
                obs.count("skipped:value-has-no-literal");
                return;
            }
            (_, x) => x,
        };
        let pre = *rng.pick(&["", "100 200", "\"below\" 7 var outer-v", "[ 1 ] 55 var outer-v outer-v"]);
        let post = *rng.pick(&["", "depth", "dup print", "depth 2 collect", "outer-probe"]);
        let post = if post == "outer-probe" { if pre.contains("outer-v") { "outer-v" } else { "depth" } } else { post };
        let post = if nres == 0 && post == "dup print" { "depth" } else { post };
        let wrap = |body: &str| -> String {
            match position {
                "top" => format!("{} {} {}", pre, body, post),
                "vec" => format!("{} [ 9 {} 8 ] {}", pre, body, post),
                "map-value" => format!("{} {{ {} depth collect \"k\" }} {}", pre, body, post),
                "tag-value" => format!("{} 5 ^{{ [ {} ] \"t\" ^}} tags {}", pre, body, post),
                "definition" => format!("{} : user-{} {} ; user-{} user-{} {}", pre, idx % 100, body, idx % 100, idx % 100, post),
                "meta-in-meta" => format!("{} #( {} depth collect #) {}", pre, body, post),
                "definition-in-vec" => format!("{} : user-{} [ {} ] ; [ user-{} ] {}", pre, idx % 100, body, idx % 100, post),
                "if-branch" => format!("{} true if {} else 0 then {}", pre, body, post),
                // the enclosing word has locals named like the words the block itself defines or uses: the block is compiled
                // in its own scope and must not see them
                "definition-with-locals" => {
                    let mut clash: Vec<String> = e.src.split(' ').filter(|t| t.starts_with("mw") || t.starts_with("ma") || t.starts_with("mb") || t.starts_with("sq") || t.starts_with("lw") || t.starts_with("MC") || t.starts_with("MK") || t.starts_with("gw")).map(|t| t.to_string()).collect();
                    clash.sort();
                    clash.dedup();
                    clash.truncate(2);
                    let decl: String = clash.iter().map(|c| format!("1 local {} ", c)).collect();
                    format!("{} : user-{} {}2 local ul {} ul drop ; user-{} {}", pre, idx % 100, decl, body, idx % 100, post)
                }
                _ => format!("{} 2 0 do {} loop {}", pre, body, post),
            }
        };
        let p = wrap(&format!("#( {} #)", e.src));
        let style = rng.below(2);
        let mut xa = self.boot.clone();
        let ra = submit(&mut xa, &p, style);
        if matches!(ra, Err(_)) {
            obs.skipped += 1;
            obs.count("skipped:panic(C08)");
            return;
        }
        obs.count("pairs");
        obs.see("positions", position);
        obs.see("expr_classes", e.class);
        obs.see("result_counts", &format!("{}", nres));
        let case = format!("[{}] {}", if style == 0 { "eval" } else { "compile+run" }, p);
        match &inline {
            None => {
                // e fails under ordinary evaluation: the program with the block must be rejected too
                if matches!(ra, Ok(Ok(()))) {
                    return self.fail(obs, idx, format!("failing-block-accepted:{}", e.class), case, format!("`{}` fails when evaluated normally, but the program with the block succeeded", e.src));
                }
                obs.count("failing_blocks_rejected");
            }
            Some(lit) => {
                let mut p2 = wrap(lit);
                // constants defined by the block are visible afterwards in P; P' writes their value out
                let mut tail_consts = String::new();
                for (name, val) in &const_vals {
                    if let Some(l) = literal(val) {
                        // later uses in `post` do not mention them; check visibility explicitly in P and the literal in P'
                        tail_consts.push_str(&format!(" {}", l));
                        let _ = name;
                    }
                }
                let p_full = if const_vals.is_empty() { p.clone() } else { format!("{} {}", p, const_vals.iter().map(|(n, _)| n.clone()).collect::<Vec<_>>().join(" ")) };
                if !const_vals.is_empty() {
                    p2.push_str(&tail_consts);
                }
                // sometimes the interpreter's previous program stopped with a run-time error, and sometimes the sources
                // come in as files
                let after_failure = rng.chance(1, 4);
                let as_file = rng.chance(1, 4);
                let mut xa = self.boot.clone();
                let mut xb = self.boot.clone();
                if after_failure {
                    for x in [&mut xa, &mut xb] {
                        let _ = submit(x, "\"earlier\" drop 3 0 do 10 error loop", style);
                        while x.data_depth() > 0 {
                            if x.pop_data().is_err() {
                                break;
                            }
                        }
                        let _ = x.read_stdout();
                    }
                    obs.count("pairs_after_a_failed_program");
                }
                if as_file {
                    obs.count("pairs_submitted_as_files");
                }
                let ra = if as_file { submit_file(&mut xa, &p_full, style) } else { submit(&mut xa, &p_full, style) };
                let rb = if as_file { submit_file(&mut xb, &p2, style) } else { submit(&mut xb, &p2, style) };
                if matches!(ra, Err(_)) || matches!(rb, Err(_)) {
                    obs.skipped += 1;
                    obs.count("skipped:panic(C08)");
                    return;
                }
                let oa = observation(&mut xa, &ra).1;
                let ob = observation(&mut xb, &rb).1;
                if after_failure || as_file {
                    // eval is the same as compile followed by run - also for files, also after a failed program
                    let mut xc = self.boot.clone();
                    if after_failure {
                        let _ = submit(&mut xc, "\"earlier\" drop 3 0 do 10 error loop", 1 - style);
                        while xc.data_depth() > 0 {
                            if xc.pop_data().is_err() {
                                break;
                            }
                        }
                        let _ = xc.read_stdout();
                    }
                    let rc = if as_file { submit_file(&mut xc, &p_full, 1 - style) } else { submit(&mut xc, &p_full, 1 - style) };
                    if let Ok(rc) = rc {
                        let oc = observation(&mut xc, &Ok(rc)).1;
                        if oc != oa {
                            return self.fail(obs, idx, format!("eval-differs-from-compile+run:{}{}", if as_file { "file" } else { "text" }, if after_failure { ":after-a-failed-program" } else { "" }), case, format!("[{}]:\n{}\n[{}]:\n{}", if style == 0 { "eval" } else { "compile+run" }, truncate(&oa, 600), if style == 0 { "compile+run" } else { "eval" }, truncate(&oc, 600)));
                        }
                        obs.count("pairs_compared_across_submission_styles");
                    }
                }
                // the variable listing of P additionally shows the constants the block defined: compare without them
                let strip = |o: &str| -> String {
                    let mut s = o.to_string();
                    for (n, _) in &const_vals {
                        // every definition of the name (a redefinition shadows the older entry, which stays listed)
                        let pat = format!(" {}=", n);
                        while let Some(at) = s.find(&pat) {
                            match s[at..].find(';') {
                                Some(e) => s.replace_range(at..at + e + 1, ""),
                                None => break,
                            }
                        }
                    }
                    s
                };
                if strip(&oa) != strip(&ob) {
                    let what = if oa.lines().next() != ob.lines().next() { "result" } else { "state" };
                    return self.fail(obs, idx, format!("inline-differs:{}:{}:{}", what, position, e.class), format!("{}\n--- inlined: {}", case, p2), format!("with the block:\n{}\nwith the value written out:\n{}", truncate(&oa, 700), truncate(&ob, 700)));
                }
                obs.count("pairs_equal");
                // after the block only the constants remain: no word defined inside is callable
                let mut leak = xa.clone();
                for w in ["mw", "ma", "mb"] {
                    let name = format!("{}{}", w, idx % 1000);
                    if e.src.contains(&format!(": {} ", name)) {
                        let r = catch(|| leak.eval(&format!("defined {}", name)));
                        let top = leak.get_data(0).map(show);
                        if !matches!(r, Ok(Ok(()))) || top.as_deref() != Some("false") {
                            return self.fail(obs, idx, "word-survives-block".into(), case, format!("`defined {}` after the block gives {:?}", name, top));
                        }
                        obs.count("purge_checks");
                    }
                }
            }
        }
        obs.add("evaluations", 1);
        obs.shape(fnv1a(format!("{}|{}|{}|{}|{}", position, e.class, nres, pre, post).as_bytes()) ^ fnv1a(e.src.as_bytes()));
        if idx % 1999 < 2 {
            obs.sample(J::obj(vec![("program", J::s(p)), ("inlined", J::s(inline.unwrap_or_else(|| "(block fails)".into())))]));
        }
    }

    /// blocks that try to touch the outside must fail; hook invariants around a block at top level
    fn sealing_case(&mut self, idx: u64, obs: &mut Obs) {
        let mut rng = Rng::for_case("C11seal", self.seed, idx);
        let mut xs = self.boot.clone();
        let _ = xs.eval("11 22 33 44 var outer-v : outer-w 1 ;");
        let _ = xs.read_stdout();
        let (body, kind): (&str, &str) = *rng.pick(&[
            ("drop", "drop-outer-value"),
            ("+", "consume-outer-values"),
            ("dup", "dup-outer-value"),
            ("swap", "swap-outer-values"),
            ("depth 3 assert-eq", "see-outer-depth"),
            ("outer-v", "read-variable"),
            ("5 ! outer-v", "write-variable"),
            ("5 var inner-v", "define-variable"),
            ("outer-v 1 +", "read-variable-in-expression"),
            (": w outer-v ; w", "read-variable-through-word"),
            ("1 #( drop drop #)", "nested-block-reaches-outside"),
            ("rot", "rot-outer-values"),
            ("over", "over-outer-values"),
            ("[ 1 2 ] let [ la lb ]", "let-variable"),
            ("offset", "read-builtin-variable"),
            ("4 seek", "write-builtin-variable"),
            ("|FF| emit", "emit"),
            ("258 u16!", "pack-in-session-byte-order"),
            ("1.5 f64!", "pack-float-in-session-byte-order"),
            ("|01 02| open-bitstr", "open-bitstr"),
            ("remain", "remain"),
            ("big", "change-byte-order"),
        ]);
        let wrapper = rng.below(3);
        let src = match wrapper {
            0 => format!("#( {} #)", body),
            1 => format!("[ #( {} #) ]", body),
            _ => format!(": sealed #( {} #) ; sealed", body),
        };
        let style = rng.below(2);
        let before = crate::mon::c03::full_state(&mut xs, false);
        let r = submit(&mut xs, &src, style);
        obs.count("sealing_probes");
        obs.see("sealing_kinds", kind);
        match r {
            Err(_) => {
                obs.skipped += 1;
                obs.count("skipped:panic(C08)");
            }
            Ok(Ok(())) => {
                // "depth 3 assert-eq" succeeding would mean the block saw the three outer values
                let o = observation(&mut xs, &Ok(Ok(()))).1;
                return self.fail(obs, idx, format!("block-touches-outside:{}", kind), format!("11 22 33 44 var outer-v  then  {}", src), format!("the block was accepted; afterwards:\n{}", truncate(&o, 500)));
            }
            Ok(Err(_)) => {
                // rejected at build time: nothing may have changed (stack, variables) - C10 covers the full clean-up
                let after = crate::mon::c03::full_state(&mut xs, false);
                for (x, y) in before.iter().zip(after.iter()) {
                    if (x.0 == "data" || x.0 == "variables") && x.1 != y.1 {
                        return self.fail(obs, idx, format!("rejected-block-changed:{}:{}", x.0, kind), src, format!("before: {}\nafter:  {}", truncate(&x.1, 400), truncate(&y.1, 400)));
                    }
                }
                obs.count("sealing_probes_rejected");
            }
        }
        obs.add("evaluations", 1);
        obs.shape(fnv1a(format!("seal|{}|{}|{}", kind, wrapper, style).as_bytes()));
    }

    /// the block cannot see the surrounding data stack: the same block gives the same outcome whether three values or
    /// none lie below it, and the values below are still there afterwards
    fn twin_stack_case(&mut self, idx: u64, obs: &mut Obs) {
        let mut rng = Rng::for_case("C11twin", self.seed, idx);
        let mut body = String::new();
        for _ in 0..rng.below(4) {
            body.push_str(rng.pick_str(&["1 ", "2 ", "3 ", "[ 4 5 ] ", "\"s\" "]));
        }
        for _ in 0..1 + rng.below(5) {
            body.push_str(rng.pick_str(&[
                "1", "2", "3", "7", "\"s\"", "[ 4 5 ]", "nil", "drop", "dup", "swap", "over", "rot", "depth", "collect", "+", "*", "-", "max", "len", "reverse",
                "concat", "[", "]", "not", "nip", "tuck", "2 collect", "1 3 collect", "depth collect", "0 collect", "5 const TK", "unbox", "= ", "assert-eq", "print",
            ]));
            body.push(' ');
        }
        let wrapper = rng.below(3);
        let src = match wrapper {
            0 => format!("#( {}#)", body),
            1 => format!("[ #( {}#) ]", body),
            _ => format!(": sealed #( {}#) ; sealed", body),
        };
        let style = rng.below(2);
        let mut xa = self.boot.clone();
        let mut xb = self.boot.clone();
        let _ = xa.eval("44 var outer-v");
        let _ = xb.eval("44 var outer-v");
        let below = *rng.pick(&["11 22 33", "11", "[ 1 2 ] \"x\" 5 6", "0 0 0 0 0 0 0 0"]);
        let _ = xa.eval(below);
        let nbelow = xa.data_depth();
        let ra = submit(&mut xa, &src, style);
        let rb = submit(&mut xb, &src, style);
        let (ra, rb) = match (ra, rb) {
            (Ok(a), Ok(b)) => (a, b),
            _ => {
                obs.skipped += 1;
                obs.count("skipped:panic(C08)");
                return;
            }
        };
        obs.count("twin_stack_probes");
        let case = format!("{}  then  [{}] {}", below, if style == 0 { "eval" } else { "compile+run" }, src);
        let ca = ra.as_ref().err().map(err_class);
        let cb = rb.as_ref().err().map(err_class);
        let sa: Vec<String> = (0..xa.data_depth()).rev().filter_map(|i| xa.get_data(i).map(show)).collect();
        let sb: Vec<String> = (0..xb.data_depth()).rev().filter_map(|i| xb.get_data(i).map(show)).collect();
        let out_a = xa.read_stdout().unwrap_or_default();
        let out_b = xb.read_stdout().unwrap_or_default();
        if ca != cb {
            return self.fail(obs, idx, "block-sees-outer-stack:outcome".into(), case, format!("with values below: {:?} stack {:?}\nwith nothing below: {:?} stack {:?}", ca, sa, cb, sb));
        }
        let mut want: Vec<String> = {
            let mut t = self.boot.clone();
            let _ = t.eval(below);
            (0..t.data_depth()).rev().filter_map(|i| t.get_data(i).map(show)).collect()
        };
        assert_eq!(want.len(), nbelow);
        want.extend(sb.iter().cloned());
        if sa != want || out_a != out_b {
            return self.fail(obs, idx, format!("block-sees-outer-stack:{}", if ca.is_some() { "after-rejection" } else { "result" }), case, format!("with values below: stack {:?} printed {:?}\nwith nothing below: stack {:?} printed {:?}", sa, out_a, sb, out_b));
        }
        obs.count(if ca.is_some() { "twin_stack_probes:rejected_alike" } else { "twin_stack_probes:accepted_alike" });
        obs.add("evaluations", 1);
        obs.shape(fnv1a(format!("twin|{}|{}|{}|{}", body, wrapper, style, below).as_bytes()));
    }

    /// compile() executes nothing outside meta blocks: data stack and existing variables unchanged; a closed top-level
    /// block adds exactly its results as code and exactly its constants to the dictionary
    fn compile_case(&mut self, idx: u64, obs: &mut Obs) {
        let mut rng = Rng::for_case("C11compile", self.seed, idx);
        let mut xs = self.boot.clone();
        let _ = xs.eval("11 \"s\" [ 3 ] 44 var outer-v");
        let _ = xs.read_stdout();
        if rng.flip() {
            // a whole generated program (with meta blocks inside): compile must not run any of it
            let src = if rng.flip() {
                gen_case("C11", self.seed, idx).rendered.src
            } else {
                gen_g2(&mut rng, 40, false).0
            };
            let d0 = xs.verif_dump();
            let out0 = xs.read_stdout().unwrap_or_default();
            let r = catch(|| xs.compile(&src));
            if !matches!(r, Ok(Ok(()))) {
                obs.count("compile_case:not-built");
                return;
            }
            let d1 = xs.verif_dump();
            let out1 = xs.read_stdout().unwrap_or_default();
            let stack0 = format!("{} | {}", show_vec(&d0.data_hidden), show_vec(&d0.data_visible));
            let stack1 = format!("{} | {}", show_vec(&d1.data_hidden), show_vec(&d1.data_visible));
            if stack0 != stack1 {
                return self.fail(obs, idx, "compile-changed-stack".into(), src, format!("before: {}\nafter:  {}", stack0, stack1));
            }
            if show_vec(&d0.heap) != show_vec(&d1.heap[..d0.heap.len().min(d1.heap.len())]) || d1.heap.len() < d0.heap.len() {
                return self.fail(obs, idx, "compile-changed-variables".into(), src, format!("before: {}\nafter:  {}", truncate(&show_vec(&d0.heap), 400), truncate(&show_vec(&d1.heap), 400)));
            }
            if !out0.is_empty() || !out1.is_empty() {
                return self.fail(obs, idx, "compile-printed".into(), src, format!("output during compile: {:?}", out1));
            }
            obs.count("compile_invariants_checked");
        } else {
            let e = gen_expr(&mut rng, idx, true);
            let mut scratch = self.boot.clone();
            let nres = match catch(|| scratch.eval(&ordinary(&e.src))) {
                Ok(Ok(())) => scratch.data_depth(),
                _ => {
                    obs.count("compile_case:expr-fails");
                    return;
                }
            };
            let d0 = xs.verif_dump();
            let dict0 = xs.verif_dict();
            let src = format!("#( {} #)", e.src);
            let r = catch(|| xs.compile(&src));
            if !matches!(r, Ok(Ok(()))) {
                return self.fail(obs, idx, format!("block-rejected:{}", e.class), src, format!("the expression evaluates normally to {} value(s) but the block was rejected: {:?}", nres, r.map(|x| x.map_err(|e| show_err(&e)))));
            }
            let d1 = xs.verif_dump();
            let dict1 = xs.verif_dict();
            if d1.code_len != d0.code_len + nres {
                return self.fail(obs, idx, format!("code-left-behind:{}", e.class), src, format!("code length {} -> {}, the block has {} result(s)", d0.code_len, d1.code_len, nres));
            }
            // (a constant defined twice is listed twice: the redefinition shadows the older entry)
            let mut added: Vec<String> = dict1[dict0.len().min(dict1.len())..].iter().map(|(n, k)| format!("{}:{}", n, k)).collect();
            added.sort();
            added.dedup();
            let mut want: Vec<String> = e.consts.iter().map(|c| format!("{}:const", c)).collect();
            want.sort();
            if added != want || dict1.len() < dict0.len() {
                return self.fail(obs, idx, format!("dictionary-after-block:{}", e.class), src, format!("entries added by the block: {:?}, expected only its constants {:?}", added, want));
            }
            if show_vec(&d0.heap) != show_vec(&d1.heap) || show_vec(&d0.data_visible) != show_vec(&d1.data_visible) || show_vec(&d0.data_hidden) != show_vec(&d1.data_hidden) {
                return self.fail(obs, idx, format!("block-changed-outside:{}", e.class), src, "data stack or variables differ after compiling the block".into());
            }
            if d1.debug_map_len != d1.code_len {
                return self.fail(obs, idx, "debug-map-misaligned".into(), src, format!("code {} debug map {}", d1.code_len, d1.debug_map_len));
            }
            obs.count("block_hook_invariants_checked");
        }
        obs.add("evaluations", 1);
        obs.shape(fnv1a(format!("compile|{}", idx).as_bytes()));
    }
}

impl Monitor for C11 {
    fn run_case(&mut self, idx: u64, obs: &mut Obs) {
        match idx % 8 {
            6 => {
                if (idx / 8) % 2 == 0 {
                    self.sealing_case(idx, obs)
                } else {
                    self.twin_stack_case(idx, obs)
                }
            }
            7 => self.compile_case(idx, obs),
            _ => self.pair_case(idx, obs),
        }
    }
    fn boot_mut(&mut self) -> Option<&mut Xstate> {
        Some(&mut self.boot)
    }
    fn describe(&mut self, idx: u64) -> String {
        format!("meta-evaluation case #{}", idx)
    }
}
