//! C13 — tags never change what a value does.
//! Oracle: metamorphic twin — the same word on untagged and on tagged copies of the same arguments, in two clones of one
//! interpreter; outcomes must agree modulo tags, and a tagged result must be a tagged input that was moved, never a
//! freshly computed value. Tag words are checked against a (value, attached map) model.
use super::Monitor;
use crate::mon::c12::{bits_to_bitstr, from_cell, gen_scalar, MV};
use crate::mon::c15::truncate;
use crate::render::*;
use crate::util::*;
use crate::Args;
use std::collections::BTreeSet;
use xeh::prelude::*;

pub struct C13 {
    seed: u64,
    boot: Xstate,
    words: Vec<String>,
    /// how many of the supplied arguments a word takes off the stack (learned from a battery of untagged runs)
    arity: std::collections::BTreeMap<String, usize>,
}

/// words whose result may be one of their arguments itself (moved, with whatever tags it carries)
const MOVERS: &[&str] = &["dup", "drop", "swap", "over", "rot", "nth", "get", "unbox"];

const EXCLUDED: &[&str] = &[
    // the tag words themselves (checked against the attached-map model below)
    "tags", "with-tags", "insert-tag", "remove-tag", "get-tag",
    // printing / formatting words that honour the formatting tag
    "print", "println", ".s", "concat", "join",
    // inherently non-deterministic or external
    "random", "random-bits", "read-all", "write-all", "exec-piped", "exit",
    // reads a name from the source text at run time
    "<name>",
];

impl C13 {
    pub fn new(a: &Args) -> C13 {
        let mut boot = Xstate::boot().expect("boot");
        boot.intercept_stdout(true);
        boot.intercept_output(true).expect("intercept output");
        boot.set_binary_input(Xbitstr::from(vec![0x12u8, 0x34, 0x56, 0x78, 0x9a, 0xbc, 0xde, 0xf0, 0x00, 0x41, 0x42, 0x00, 0xff, 0x01])).expect("input");
        // a second input opened on top of the first one, so that close-bitstr has something to return to
        boot.eval("|12 34 56 78 9A BC DE F0 00 41 42 00 FF 01| open-bitstr").expect("nested input");
        let _ = boot.set_insn_limit(Some(5_000));
        let _ = boot.set_stack_limit(Some(5_000));
        let words: Vec<String> = boot
            .verif_dict()
            .into_iter()
            .filter(|(n, k)| *k == "native" && !EXCLUDED.contains(&n.as_str()))
            .map(|(n, _)| n.to_string())
            .collect();
        let mut uniq = BTreeSet::new();
        let words: Vec<String> = words.into_iter().filter(|w| uniq.insert(w.clone())).collect();
        let mut arity = std::collections::BTreeMap::new();
        let mut rng = Rng::new(0xA71);
        for w in &words {
            let mut best = 0usize;
            for _ in 0..260 {
                let mut models: Vec<MV> = vec![];
                for _ in 0..3 {
                    let c = *rng.pick(CLASSES);
                    models.push(gen_class(&mut rng, c));
                }
                modest_sizes(w, &mut models);
                let args: Vec<Cell> = models.iter().map(|m| crate::mon::c12::to_cell(m, &mut None)).collect();
                if let Ok(r) = run(&boot, &args, w) {
                    if r.res == "ok" {
                        // inputs are sentinel + 3 arguments; the untouched ones form a common prefix with the result stack
                        let mut ins = vec!["\"sentinel\"".to_string()];
                        ins.extend(args.iter().map(show));
                        let outs: Vec<String> = r.stack.iter().map(show).collect();
                        let common = ins.iter().zip(outs.iter()).take_while(|(a, b)| a == b).count();
                        best = best.max(ins.len() - common);
                    }
                }
            }
            arity.insert(w.clone(), best.min(3));
        }
        C13 { seed: a.seed, boot, words, arity }
    }
}

thread_local! {
    /// str>number takes its base from the formatting tag: its arguments get tag maps without that tag
    static NO_FMT_TAG: std::cell::Cell<bool> = std::cell::Cell::new(false);
}

fn str_map(rng: &mut Rng, depth: usize) -> Xmap {
    // tag maps use string keys only (maps with keys of different types are C12's known finding)
    let mut m = Xmap::new();
    for _ in 0..1 + rng.below(3) {
        let mut k = *rng.pick(&["len", "big", "unit", "k", "#fmt", "note"]);
        if k == "#fmt" && NO_FMT_TAG.with(|f| f.get()) {
            k = "fmt";
        }
        let mut v = match k {
            "#fmt" => Cell::Int(*rng.pick(&[16i128, 2, 8, 10, 16 | 0x100, 16 | 0x200, 2 | 0x800])),
            "len" => Cell::Int(*rng.pick(&[8i128, 16, 3])),
            "big" => Cell::Flag(true),
            _ => crate::mon::c12::to_cell(&gen_scalar(rng), &mut None),
        };
        if depth < 2 && rng.chance(1, 4) {
            // tags on tags
            v = v.with_tags(str_map(rng, depth + 1));
        }
        m.insert_mut(Cell::from(k), v);
    }
    m
}

/// build the untagged and the tagged copy of a model value; `nested` puts tags on elements as well
fn twin(v: &MV, rng: &mut Rng, top: bool, nested: bool, depth_seen: &mut usize, depth: usize) -> (Cell, Cell) {
    let (plain, mut tagged) = match v {
        MV::Vec(xs) => {
            let mut a = Xvec::new();
            let mut b = Xvec::new();
            for x in xs {
                let tg = nested && rng.chance(1, 2);
                let (p, t) = twin(x, rng, tg, nested, depth_seen, depth + 1);
                a.push_back_mut(p);
                b.push_back_mut(t);
            }
            (Cell::Vector(a), Cell::Vector(b))
        }
        MV::Map(m) => {
            let mut a = Xmap::new();
            let mut b = Xmap::new();
            for (k, val) in m {
                let tk = nested && rng.chance(1, 3);
                let (kp, kt) = twin(k, rng, tk, nested, depth_seen, depth + 1);
                let tv = nested && rng.chance(1, 2);
                let (vp, vt) = twin(val, rng, tv, nested, depth_seen, depth + 1);
                a.insert_mut(kp, vp);
                b.insert_mut(kt, vt);
            }
            (Cell::Map(a), Cell::Map(b))
        }
        MV::Bits(bits) => {
            let c = Cell::Bitstr(bits_to_bitstr(bits));
            (c.clone(), c)
        }
        other => {
            let c = crate::mon::c12::to_cell(other, &mut None);
            (c.clone(), c)
        }
    };
    if top {
        tagged = tagged.with_tags(str_map(rng, 0));
        *depth_seen = (*depth_seen).max(depth + 1);
    }
    (plain, tagged)
}

/// the top argument of int! / uint! is an allocation size: keep it modest (the crash property excludes immodest sizes too)
fn modest_sizes(word: &str, models: &mut Vec<MV>) {
    if word == "int!" || word == "uint!" {
        if let MV::Int(v) = &models[2] {
            if *v > 512 {
                models[2] = MV::Int(*v % 130);
            }
        }
    }
}

const CLASSES: &[&str] = &["nil", "flag", "int", "big-int", "real", "str", "bits", "bits-unaligned", "vec-int", "vec-mixed", "map", "num-str", "empty-vec", "real-nan"];

fn gen_class(rng: &mut Rng, c: &str) -> MV {
    match c {
        "nil" => MV::Nil,
        "flag" => MV::Flag(rng.flip()),
        "int" => MV::Int(rng.range(-3, 40) as i128),
        "big-int" => MV::Int(*rng.pick(&[i128::MAX, i128::MIN, 1 << 64, -(1 << 63), 255, 256])),
        "real" => MV::Real(*rng.pick(&[0.0, 1.5, -2.25, 1e10, f64::INFINITY, 3.0])),
        "real-nan" => {
            if rng.flip() {
                MV::Real(f64::NAN)
            } else {
                MV::Vec(vec![MV::Int(1), MV::Real(f64::NAN)])
            }
        }
        "str" => MV::Str(rng.pick(&["", "a", "ab cd", "caf\u{e9}", "k", "len"]).to_string()),
        "num-str" => MV::Str(rng.pick(&["12", "ff", "1.5", "QUJD", "IFBEG==="]).to_string()),
        "bits" => MV::Bits((0..8 * rng.below(5)).map(|_| (rng.next_u64() & 1) as u8).collect()),
        "bits-unaligned" => MV::Bits((0..1 + rng.below(30)).map(|_| (rng.next_u64() & 1) as u8).collect()),
        "vec-int" => MV::Vec((0..rng.below(5)).map(|_| MV::Int(rng.range(0, 300) as i128)).collect()),
        "empty-vec" => MV::Vec(vec![]),
        "vec-mixed" => MV::Vec(
            (0..1 + rng.below(4))
                .map(|_| match rng.below(5) {
                    0 => MV::Str("s".into()),
                    1 => MV::Vec(vec![MV::Int(1), MV::Str("x".into())]),
                    2 => MV::Bits(vec![1, 0, 1, 1, 0, 0, 0, 1]),
                    3 => MV::Map(vec![(MV::Str("k".into()), MV::Int(1))]),
                    _ => gen_scalar(rng),
                })
                .collect(),
        ),
        _ => {
            let mut m = vec![];
            for _ in 0..rng.below(4) {
                crate::mon::c12::map_insert(&mut m, MV::Str(rng.pick(&["k", "v", "len", "a"]).to_string()), gen_scalar(rng));
            }
            MV::Map(m)
        }
    }
}

/// every tagged sub-cell (rendered with its tags)
fn tagged_subcells(c: &Cell, out: &mut BTreeSet<String>) {
    if let Some(t) = c.tags() {
        out.insert(show(c));
        for (k, v) in t.iter() {
            tagged_subcells(k, out);
            tagged_subcells(v, out);
        }
    }
    match c.value() {
        Cell::Vector(v) => {
            for x in v.iter() {
                tagged_subcells(x, out);
            }
        }
        Cell::Map(m) => {
            for (k, v) in m.iter() {
                tagged_subcells(k, out);
                tagged_subcells(v, out);
            }
        }
        _ => {}
    }
}

fn err_untagged(e: &Xerr) -> String {
    match e {
        Xerr::TypeErrorMsg { val, msg } => format!("type[{}]({})", msg, show_untagged(val)),
        Xerr::TypeNotSupported { val } => format!("type-ns({})", show_untagged(val)),
        Xerr::AssertEqFailed { a, b } => format!("assert-eq({}, {})", show_untagged(a), show_untagged(b)),
        Xerr::UserError(v) => format!("user({})", show_untagged(v)),
        other => show_err(other),
    }
}

struct Run {
    res: String,
    stack: Vec<Cell>,
    state: String,
    out: String,
    /// variables whose value carries tags (rendered with the tags)
    tagged_vars: Vec<String>,
}

fn run(boot: &Xstate, args: &[Cell], word: &str) -> Result<Run, String> {
    let mut xs = boot.clone();
    let _ = xs.push_data(Cell::from("sentinel"));
    for a in args {
        let _ = xs.push_data(a.clone());
    }
    let r = catch(|| xs.eval(word));
    let res = match &r {
        Err((m, l)) => return Err(format!("panic {} at {}", m, normalise_loc(l))),
        Ok(Ok(())) => "ok".to_string(),
        Ok(Err(e)) => format!("error {}", err_untagged(e)),
    };
    let n = xs.data_depth();
    let stack: Vec<Cell> = (0..n).rev().filter_map(|i| xs.get_data(i).cloned()).collect();
    let d = xs.verif_dump();
    let mut state = String::new();
    let mut tagged_vars = vec![];
    for (i, c) in d.heap.iter().enumerate() {
        state.push_str(&show_untagged(c));
        state.push(' ');
        if c.tags().is_some() {
            tagged_vars.push(format!("cell {}: {}", i, show(c)));
        }
    }
    state.push_str(&format!("| loops {} frames {} marks {:?}", d.loops.len(), d.frames.len(), d.special));
    let out = xs.read_stdout().unwrap_or_default();
    Ok(Run { res, stack, state, out, tagged_vars })
}

impl C13 {
    fn fail(&self, obs: &mut Obs, idx: u64, word: &str, class: &str, case: String, detail: String) {
        obs.violation(Violation { class: format!("{}:{}", word, class), sig: format!("C13:{}:{}", word, class), index: idx, case, detail });
    }

    fn word_case(&mut self, idx: u64, obs: &mut Obs) {
        let mut rng = Rng::for_case("C13", self.seed, idx);
        let mut word = self.words[(idx / 2) as usize % self.words.len()].clone();
        // three arguments are always supplied; a word takes what it needs from the top
        let mut classes: Vec<&str> = (0..3).map(|_| *rng.pick(CLASSES)).collect();
        let mut models: Vec<MV> = classes.iter().map(|c| gen_class(&mut rng, c)).collect();
        if idx % 6 == 5 {
            // map words with keys of every type (composite keys included): one map, one key of the same type
            word = rng.pick(&["get", "insert", "remove"]).to_string();
            let rank = *rng.pick(&[1u8, 2, 3, 4, 5, 6, 7]);
            let mut m = vec![];
            for _ in 0..2 + rng.below(4) {
                crate::mon::c12::map_insert(&mut m, crate::mon::c12::gen_key_of(&mut rng, rank), gen_scalar(&mut rng));
            }
            let key = if rng.flip() && !m.is_empty() { m[rng.below(m.len())].0.clone() } else { crate::mon::c12::gen_key_of(&mut rng, rank) };
            models = if word == "insert" { vec![MV::Map(m), gen_scalar(&mut rng), key] } else { vec![MV::Int(1), MV::Map(m), key] };
            classes = vec!["keyed", "keyed", ["", "flag-key", "int-key", "real-key", "str-key", "bits-key", "vec-key", "map-key"][rank as usize]];
            obs.count("keyed_map_cases");
        }
        modest_sizes(&word, &mut models);
        NO_FMT_TAG.with(|f| f.set(word == "str>number"));
        let style = rng.below(4); // which positions get tags
        let mut plain = vec![];
        let mut tagged = vec![];
        let mut depth_seen = 0usize;
        let mut positions = String::new();
        for (i, m) in models.iter().enumerate() {
            let top = match style {
                0 => i == 2,
                1 => i == 1,
                2 => true,
                _ => rng.flip(),
            };
            let nested = rng.chance(1, 2);
            let (p, t) = twin(m, &mut rng, top, nested, &mut depth_seen, 0);
            if show(&t) != show(&p) {
                positions.push_str(&format!("{}", i));
            }
            plain.push(p);
            tagged.push(t);
        }
        if positions.is_empty() {
            // no tag ended up anywhere: force one on the top argument
            tagged[2] = tagged[2].with_tags(str_map(&mut rng, 0));
            positions.push('2');
        }
        NO_FMT_TAG.with(|f| f.set(false));
        if idx % 6 != 5 && rng.chance(1, 6) {
            // the same cell twice (as `dup` or a variable read twice leaves it): the two top arguments share storage
            plain[1] = plain[2].clone();
            tagged[1] = tagged[2].clone();
            positions.push_str("=");
            obs.count("aliased_argument_pairs");
        }
        let case = format!("{}  on  {}   (tagged copy: {})", word, show_vec(&plain), show_vec(&tagged));
        let a = match run(&self.boot, &plain, &word) {
            Ok(r) => r,
            Err(_) => {
                obs.skipped += 1;
                obs.count("skipped:untagged-run-panics(C08)");
                return;
            }
        };
        let b = match run(&self.boot, &tagged, &word) {
            Ok(r) => r,
            Err(p) => return self.fail(obs, idx, &word, "panic-with-tags", case, p),
        };
        obs.count("twin_pairs");
        obs.see("tag_positions", &positions);
        obs.maxi("max_tag_nesting_depth", depth_seen as u64);
        obs.see("arg_classes", classes[2]);
        if a.res != b.res {
            let cls = if a.res == "ok" || b.res == "ok" { "outcome" } else { "error" };
            return self.fail(obs, idx, &word, cls, case, format!("untagged: {}\n  tagged: {}", truncate(&a.res, 400), truncate(&b.res, 400)));
        }
        let sa: Vec<String> = a.stack.iter().map(show_untagged).collect();
        let sb: Vec<String> = b.stack.iter().map(show_untagged).collect();
        if sa != sb {
            return self.fail(obs, idx, &word, "result", case, format!("untagged: [{}]\n  tagged: [{}]", truncate(&sa.join(" "), 500), truncate(&sb.join(" "), 500)));
        }
        if a.state != b.state {
            return self.fail(obs, idx, &word, "variables", case, format!("untagged: {}\n  tagged: {}", truncate(&a.state, 500), truncate(&b.state, 500)));
        }
        // nobody attached tags in the untagged run: no variable may end up holding a tagged value (unless it is one of
        // the values the word itself tags by contract and stores, which then shows on the stack side as well)
        if !a.tagged_vars.is_empty() {
            return self.fail(obs, idx, &word, "variable-carries-tags-nobody-attached", case, format!("after the untagged run: {}", truncate(&a.tagged_vars.join("; "), 400)));
        }
        if a.out != b.out {
            return self.fail(obs, idx, &word, "output", case, format!("untagged: {:?}\n  tagged: {:?}", truncate(&a.out, 300), truncate(&b.out, 300)));
        }
        // freshly computed results carry no tags: a tagged cell in the result must be one of the tagged inputs, moved
        let mut input_tagged = BTreeSet::new();
        for t in &tagged {
            tagged_subcells(t, &mut input_tagged);
        }
        let mut out_tagged = BTreeSet::new();
        for c in &b.stack {
            tagged_subcells(c, &mut out_tagged);
        }
        // tags the word attaches by contract whatever its arguments carry (binary reads attach len/big) show up in the
        // untagged run as well and are not "propagated" tags
        let mut own_tags = BTreeSet::new();
        for c in &a.stack {
            tagged_subcells(c, &mut own_tags);
        }
        // a value the word computed (any result at a position the word consumes) is fresh: it carries no tags of its own,
        // unless the word is a pure mover / extractor or attaches those tags by contract
        let untouched = {
            // the word left the whole stack exactly as it was (e.g. >int of an int): nothing was computed
            let mut ins = vec!["\"sentinel\"".to_string()];
            ins.extend(tagged.iter().map(show));
            ins == b.stack.iter().map(show).collect::<Vec<_>>()
        };
        // `collect` takes a value-dependent number of arguments: the positional rule does not apply to it
        if a.res == "ok" && !untouched && word != "collect" {
            let n = *self.arity.get(&word).unwrap_or(&0);
            let keep = 4usize.saturating_sub(n); // sentinel + 3 arguments, the lowest `keep` are not touched
            for (pos, c) in b.stack.iter().enumerate() {
                if pos >= keep && c.tags().is_some() && !MOVERS.contains(&word.as_str()) && !own_tags.contains(&show(c)) {
                    return self.fail(obs, idx, &word, "computed-result-carries-tags", case, format!("{} takes {} argument(s); its result {} carries tags", word, n, truncate(&show(c), 300)));
                }
            }
        }
        for o in &out_tagged {
            if !input_tagged.contains(o) && !own_tags.contains(o) {
                return self.fail(obs, idx, &word, "fresh-result-carries-tags", case, format!("result contains the tagged value {} which is not one of the tagged inputs", truncate(o, 300)));
            }
        }
        // and the untagged run never produces tags out of nothing (binary reads attach len/big: those are the read words' contract)
        if a.res == "ok" {
            obs.count("pairs_both_succeeded");
            obs.see("words_both_succeeded", &word);
        } else {
            obs.count("pairs_both_failed");
        }
        obs.see("words_covered", &word);
        obs.add("evaluations", 1);
        obs.shape(fnv1a(format!("{}:{}:{}:{}", word, classes.join(","), positions, a.res == "ok").as_bytes()));
        if idx % 2999 < 2 {
            obs.sample(J::obj(vec![("word", J::s(word)), ("untagged_args", J::s(show_vec(&plain))), ("tagged_args", J::s(show_vec(&tagged))), ("outcome", J::s(truncate(&a.res, 80)))]));
        }
    }

    /// tag words against a (value, attached map) model
    fn tagword_case(&mut self, idx: u64, obs: &mut Obs) {
        let mut rng = Rng::for_case("C13tags", self.seed, idx);
        // (NaN is unequal to itself: the value-unaltered comparison below uses equality, so no NaN here)
        let mut cls = *rng.pick(CLASSES);
        while cls == "real-nan" {
            cls = *rng.pick(CLASSES);
        }
        let base = gen_class(&mut rng, cls);
        let base_cell = crate::mon::c12::to_cell(&base, &mut None);
        let mut cell = base_cell.clone();
        let mut model: Vec<(String, String)> = vec![]; // key -> rendering of the tag value (tags shown)
        let mut log = vec![format!("v = {}", base.show())];
        for step in 0..3 + rng.below(10) {
            let key = rng.pick(&["len", "big", "unit", "k", "#fmt", "note", "zz"]).to_string();
            match rng.below(6) {
                0 | 1 => {
                    let mut val = crate::mon::c12::to_cell(&gen_scalar(&mut rng), &mut None);
                    if rng.chance(1, 4) {
                        val = val.with_tags(str_map(&mut rng, 1));
                    }
                    log.push(format!("[{}] v = v {} {:?} insert-tag", step, show(&val), key));
                    let r = run(&self.boot, &[cell.clone(), val.clone(), Cell::from(key.as_str())], "insert-tag");
                    match r {
                        Ok(r) if r.res == "ok" && r.stack.len() == 2 => {
                            cell = r.stack[1].clone();
                            model.retain(|(k, _)| *k != key);
                            model.push((key.clone(), show(&val)));
                        }
                        Ok(r) => return self.fail(obs, idx, "insert-tag", "outcome", log.join("\n"), format!("{} stack {}", r.res, show_vec(&r.stack))),
                        Err(p) => return self.fail(obs, idx, "insert-tag", "panic", log.join("\n"), p),
                    }
                    obs.count("tagop:insert-tag");
                }
                2 => {
                    log.push(format!("[{}] v = v {:?} remove-tag", step, key));
                    match run(&self.boot, &[cell.clone(), Cell::from(key.as_str())], "remove-tag") {
                        Ok(r) if r.res == "ok" && r.stack.len() == 2 => {
                            cell = r.stack[1].clone();
                            model.retain(|(k, _)| *k != key);
                        }
                        Ok(r) => return self.fail(obs, idx, "remove-tag", "outcome", log.join("\n"), format!("{} stack {}", r.res, show_vec(&r.stack))),
                        Err(p) => return self.fail(obs, idx, "remove-tag", "panic", log.join("\n"), p),
                    }
                    obs.count("tagop:remove-tag");
                }
                3 => {
                    log.push(format!("[{}] v {:?} get-tag", step, key));
                    let want = model.iter().find(|(k, _)| *k == key).map(|(_, v)| v.clone()).unwrap_or_else(|| "nil".to_string());
                    match run(&self.boot, &[cell.clone(), Cell::from(key.as_str())], "get-tag") {
                        Ok(r) if r.res == "ok" && r.stack.len() == 2 => {
                            if show(&r.stack[1]) != want {
                                return self.fail(obs, idx, "get-tag", "result", log.join("\n"), format!("got {} expected {}", show(&r.stack[1]), want));
                            }
                        }
                        Ok(r) => return self.fail(obs, idx, "get-tag", "outcome", log.join("\n"), format!("{} stack {}", r.res, show_vec(&r.stack))),
                        Err(p) => return self.fail(obs, idx, "get-tag", "panic", log.join("\n"), p),
                    }
                    obs.count("tagop:get-tag");
                }
                4 => {
                    // with-tags replaces the whole attached map
                    let m = str_map(&mut rng, 1);
                    log.push(format!("[{}] v = v {} with-tags", step, show(&Cell::Map(m.clone()))));
                    match run(&self.boot, &[cell.clone(), Cell::Map(m.clone())], "with-tags") {
                        Ok(r) if r.res == "ok" && r.stack.len() == 2 => {
                            cell = r.stack[1].clone();
                            model = m.iter().map(|(k, v)| (k.str().unwrap_or("").to_string(), show(v))).collect();
                        }
                        Ok(r) => return self.fail(obs, idx, "with-tags", "outcome", log.join("\n"), format!("{} stack {}", r.res, show_vec(&r.stack))),
                        Err(p) => return self.fail(obs, idx, "with-tags", "panic", log.join("\n"), p),
                    }
                    obs.count("tagop:with-tags");
                }
                _ => {
                    log.push(format!("[{}] v tags", step));
                    match run(&self.boot, &[cell.clone()], "tags") {
                        Ok(r) if r.res == "ok" && r.stack.len() == 2 => {
                            // nil and { } both mean "no tags"
                            let got: Vec<(String, String)> = match r.stack[1].value() {
                                Cell::Nil => vec![],
                                Cell::Map(m) => m.iter().map(|(k, v)| (k.str().unwrap_or("?").to_string(), show(v))).collect(),
                                other => return self.fail(obs, idx, "tags", "type", log.join("\n"), show(other)),
                            };
                            let mut g = got.clone();
                            let mut w = model.clone();
                            g.sort();
                            w.sort();
                            if g != w {
                                return self.fail(obs, idx, "tags", "result", log.join("\n"), format!("got {:?} expected {:?}", g, w));
                            }
                        }
                        Ok(r) => return self.fail(obs, idx, "tags", "outcome", log.join("\n"), format!("{} stack {}", r.res, show_vec(&r.stack))),
                        Err(p) => return self.fail(obs, idx, "tags", "panic", log.join("\n"), p),
                    }
                    obs.count("tagop:tags");
                }
            }
            // the value itself is never altered by a tag word
            if show_untagged(&cell) != show_untagged(&base_cell) || cell != base_cell {
                return self.fail(obs, idx, "tag-words", "value-altered", log.join("\n"), format!("value is now {} was {}", show_untagged(&cell), show_untagged(&base_cell)));
            }
            if from_cell(&cell).map(|m| m.eq(&base)) != Some(true) {
                return self.fail(obs, idx, "tag-words", "value-altered", log.join("\n"), format!("value is now {}", show_untagged(&cell)));
            }
        }
        obs.add("evaluations", 1);
        obs.shape(fnv1a(log.join("|").as_bytes()));
        if idx % 2999 < 2 {
            obs.sample(J::obj(vec![("tag_word_sequence", J::Arr(log.iter().take(8).map(|l| J::s(truncate(l, 160))).collect()))]));
        }
    }
}

impl Monitor for C13 {
    fn run_case(&mut self, idx: u64, obs: &mut Obs) {
        if idx % 8 == 7 {
            self.tagword_case(idx, obs)
        } else {
            self.word_case(idx, obs)
        }
    }
    fn boot_mut(&mut self) -> Option<&mut Xstate> {
        Some(&mut self.boot)
    }
    fn describe(&mut self, idx: u64) -> String {
        format!("tag twin case #{} (word {})", idx, self.words[(idx / 2) as usize % self.words.len()])
    }
    fn finish(&mut self, obs: &mut Obs) {
        obs.maxi("eligible_words", self.words.len() as u64);
    }
}
