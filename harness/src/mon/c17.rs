//! C17 — every error points at the token that caused it.
//! Oracle: the generator's own bookkeeping. It builds every source text itself and knows, for the one token it plants as
//! the cause, the source it lives in (by its own count of submitted sources), its byte offset, and therefore line,
//! column (in characters) and the text of the line. Invariant at the hook: debug map and code stay the same length.
use super::Monitor;
use crate::mon::c15::truncate;
use crate::render::*;
use crate::util::*;
use crate::Args;
use xeh::prelude::*;

pub struct C17 {
    seed: u64,
    boot: Xstate,
    scratch: String,
}

impl C17 {
    pub fn new(a: &Args) -> C17 {
        let mut boot = Xstate::boot().expect("boot");
        boot.intercept_stdout(true);
        let _ = boot.set_insn_limit(Some(20_000));
        let _ = boot.set_stack_limit(Some(5_000));
        let scratch = format!("/verif/target/scratch/c17-{}-{}", std::process::id(), a.shard);
        let _ = std::fs::create_dir_all(&scratch);
        C17 { seed: a.seed, boot, scratch }
    }
}

impl Drop for C17 {
    fn drop(&mut self) {
        let _ = std::fs::remove_dir_all(&self.scratch);
    }
}

/// a source text under construction that remembers where the planted token is
#[derive(Default, Clone)]
struct Src {
    text: String,
    planted: Option<(usize, String)>,
}

impl Src {
    fn push(&mut self, s: &str) {
        self.text.push_str(s);
    }
    fn plant(&mut self, tok: &str) {
        self.planted = Some((self.text.len(), tok.to_string()));
        self.text.push_str(tok);
    }
}

const FILLERS: &[&str] = &["1 drop", "\"h\u{e9}llo w\u{f6}rld\" drop", "\\ a comment \u{4e16}\u{754c}\n", "\\( multi \u{e9}\n line \\)", "[ 1 2 ] drop", "2 3 + drop", "\"/\" drop", "\"nosuch\" drop", "true if 1 drop then", "|FF 0F| drop"];
const SEPS: &[&str] = &[" ", "  ", "\t", "\n", "\r\n", "\n\n", " \t ", "\r\n\r\n", "\n\t"];

fn filler(rng: &mut Rng, s: &mut Src, n: usize) {
    for _ in 0..n {
        s.push(rng.pick_str(FILLERS));
        s.push(rng.pick_str(SEPS));
    }
}

/// (fragment before the failing token, failing token, fragment after, error class)
fn failing(rng: &mut Rng, runtime: bool) -> (&'static str, &'static str, &'static str, &'static str) {
    if runtime {
        *rng.pick(&[
            ("1 0 ", "/", "", "div-zero"),
            ("nil 1 ", "+", "", "type"),
            ("[ 1 ] 5 ", "nth", "", "out-of-bounds"),
            ("false ", "assert", "", "assert"),
            ("\"msg \u{e9}\" ", "error", "", "user"),
            ("1 2 ", "assert-eq", "", "assert"),
            ("7 0 ", "rem", "", "div-zero"),
            ("\"s\" ", "neg", "", "type"),
            ("{ } 1 ", "nth", "", "type"),
            ("1 ", "I", " drop", "loop-underflow"),
            // the failing word opens a control structure (its instruction is completed later, by the closing word)
            ("\"s\" ", "if", " 1 drop then", "type"),
            ("7 ", "if", " 1 drop else 2 drop then", "type"),
            ("\"s\" 5 ", "do", " I drop loop", "type"),
            ("begin 5 ", "while", " 1 drop repeat", "type"),
        ])
    } else {
        *rng.pick(&[
            ("", "no-such-word", "", "unknown-word"),
            ("", "nosuch\u{e9}\u{4e16}", "", "unknown-word"),
            ("", "12x", "", "parse"),
            ("", "0xZZ", "", "parse"),
            ("1 ", "then", "", "control-flow"),
            ("1 ", "]", "", "control-flow"),
            ("1 ", "loop", "", "control-flow"),
            ("1 ", ";", "", "control-flow"),
            ("1 ", "endcase", "", "control-flow"),
            ("7 ! ", "no-such-var", "", "unknown-word"),
            // a malformed token exactly where a defining word reads its name
            (": ", "0xZZ", " 1 ;", "parse"),
            ("5 var ", "12x", "", "parse"),
            ("7 ! ", "1.2.3", "", "parse"),
            ("defined ", "0b2", "", "parse"),
        ])
    }
}

/// expected (line, column in characters, text of the line) of a byte offset
fn line_col(text: &str, off: usize) -> (usize, usize, String) {
    let before = &text[..off];
    let line = before.matches('\n').count();
    let start = before.rfind('\n').map(|i| i + 1).unwrap_or(0);
    let col = text[start..off].chars().count();
    let end = text[off..].find(|c| c == '\n' || c == '\r').map(|i| off + i).unwrap_or(text.len());
    (line, col, text[start..end].to_string())
}

struct Expect {
    source_name: String,
    text: String,
    offset: usize,
    token: String,
    class: &'static str,
}

impl C17 {
    fn fail(&self, obs: &mut Obs, idx: u64, class: String, log: &[String], detail: String) {
        obs.violation(Violation { class: class.clone(), sig: format!("C17:{}", class), index: idx, case: log.join("\n----\n"), detail });
    }

    fn check(&self, obs: &mut Obs, idx: u64, xs: &Xstate, res: &Result<(), Xerr>, ex: &Expect, log: &[String], scenario: &str) -> bool {
        let e = match res {
            Ok(()) => {
                self.fail(obs, idx, format!("no-error:{}", scenario), log, format!("the source was expected to fail at {:?} ({})", ex.token, ex.class));
                return false;
            }
            Err(e) => e,
        };
        if err_class(e) != ex.class {
            // some other error fired first: the bookkeeping does not apply (count, do not judge)
            obs.count("other_error_first");
            obs.see("other_errors", &format!("{}:{}!={}", scenario, err_class(e), ex.class));
            return true;
        }
        let located = catch(|| (xs.last_err_location(), xs.pretty_error()));
        let (loc0, pretty) = match located {
            Ok(x) => x,
            Err((m, l)) => {
                self.fail(obs, idx, format!("panic-while-locating:{}", scenario), log, format!("{}: computing the location panicked: {} at {}", show_err(e), m, normalise_loc(&l)));
                return false;
            }
        };
        let loc = match loc0 {
            Some(l) => l,
            None => {
                self.fail(obs, idx, format!("no-location:{}", scenario), log, format!("{} has no location", show_err(e)));
                return false;
            }
        };
        let (line, col, line_text) = line_col(&ex.text, ex.offset);
        let got_off = loc.token.range().start;
        let mut wrong = vec![];
        if loc.filename.as_str() != ex.source_name {
            wrong.push(format!("source {:?} expected {:?}", loc.filename.as_str(), ex.source_name));
        }
        if loc.token.as_str() != ex.token || (loc.filename.as_str() == ex.source_name && got_off != ex.offset) {
            wrong.push(format!("token {:?}@{} expected {:?}@{}", loc.token.as_str(), got_off, ex.token, ex.offset));
        }
        if wrong.is_empty() {
            if loc.line != line || loc.col != col {
                wrong.push(format!("line:col {}:{} expected {}:{}", loc.line, loc.col, line, col));
            }
            if loc.whole_line.as_str() != line_text {
                wrong.push(format!("quoted line {:?} expected {:?}", loc.whole_line.as_str(), line_text));
            }
            // the rendered message names source:line:col (1-based) and quotes the line
            if let Some(p) = pretty {
                let head = format!("{}:{}:{}", ex.source_name, line + 1, col + 1);
                if !p.contains(&head) || !p.contains(&line_text) {
                    wrong.push(format!("pretty_error {:?} lacks {:?} or the quoted line", truncate(&p, 200), head));
                }
            }
        }
        if !wrong.is_empty() {
            let what = if wrong[0].starts_with("source") { "source" } else if wrong[0].starts_with("token") { "token" } else if wrong[0].starts_with("line") { "line-col" } else if wrong[0].starts_with("quoted") { "quoted-line" } else { "pretty" };
            self.fail(obs, idx, format!("{}:{}", what, scenario), log, format!("{} ({}): {}", ex.class, show_err(e), wrong.join("; ")));
            return false;
        }
        obs.count("locations_confirmed");
        obs.count(&format!("scenario:{}", scenario));
        obs.see("error_classes", ex.class);
        if ex.text[..ex.offset].contains("\r\n") {
            obs.count("with_crlf_before_token");
        }
        if ex.text[..ex.offset].chars().any(|c| c.len_utf8() > 1) {
            obs.count("with_multibyte_before_token");
        }
        let (l, _, _) = line_col(&ex.text, ex.offset);
        let line_start = ex.text[..ex.offset].rfind('\n').map(|i| i + 1).unwrap_or(0);
        if ex.text[line_start..ex.offset].chars().any(|c| c.len_utf8() > 1) {
            obs.count("with_multibyte_on_the_same_line_before_token");
        }
        if ex.text[..ex.offset].contains('\t') {
            obs.count("with_tab_before_token");
        }
        obs.maxi("max_line", l as u64);
        let d = xs.verif_dump();
        if d.debug_map_len != d.code_len {
            self.fail(obs, idx, "debug-map-misaligned".into(), log, format!("code {} cells, debug map {}", d.code_len, d.debug_map_len));
            return false;
        }
        true
    }
}

impl Monitor for C17 {
    fn run_case(&mut self, idx: u64, obs: &mut Obs) {
        let mut rng = Rng::for_case("C17", self.seed, idx);
        let mut xs = self.boot.clone();
        let mut log: Vec<String> = vec![];
        let scenario = *rng.pick(&["top", "loop", "if", "called-word-same-source", "called-word-earlier-source", "deep-call-chain", "meta-block", "word-in-meta", "included-file", "after-include", "injected-text", "identical-sources", "second-error", "definition-body-build-error", "file-included-twice", "resumed-run", "immediate-word-fails-during-a-later-build", "instruction-limit"]);
        let runtime_ok = !matches!(scenario, "definition-body-build-error");
        let runtime = runtime_ok && (rng.chance(2, 3) || matches!(scenario, "file-included-twice" | "resumed-run" | "immediate-word-fails-during-a-later-build" | "instruction-limit"));
        let (mut pre, mut tok, mut post, mut class) = failing(&mut rng, runtime);
        let wrapped = !matches!(scenario, "top" | "after-include" | "injected-text" | "identical-sources" | "second-error" | "included-file" | "resumed-run");
        while (wrapped && matches!(tok, ";" | "then" | "loop" | "endcase")) || (scenario == "loop" && tok == "I") {
            // the wrapper of this scenario would balance such a closer: pick another failing token
            let f = failing(&mut rng, runtime);
            pre = f.0;
            tok = f.1;
            post = f.2;
            class = f.3;
        }
        // some earlier sources on the same interpreter (accepted ones and a rejected one), so that buffer numbers matter
        for k in 0..rng.below(4) {
            let s = if rng.chance(1, 4) { format!("{} bad-word-{}", rng.pick_str(FILLERS), k) } else { format!("{} : earlier{} {} ;", rng.pick_str(FILLERS), k, rng.pick_str(&["1 +", "drop", "dup"])) };
            let _ = catch(|| xs.eval(&s));
            log.push(format!("earlier: {}", s));
        }
        let _ = xs.read_stdout();
        let mut s = Src::default();
        let nsrc = |xs: &Xstate| xs.verif_dump().sources_len;
        let nfill = rng.below(4);
        filler(&mut rng, &mut s, nfill);
        let ex: Expect;
        let res;
        let sep = rng.pick_str(SEPS);
        match scenario {
            "top" | "loop" | "if" | "meta-block" | "definition-body-build-error" => {
                let (open, close) = match scenario {
                    "loop" => ("3 0 do ", " loop"),
                    "if" => ("true if ", " else 1 drop then"),
                    "meta-block" => ("#( ", " #)"),
                    "definition-body-build-error" => (": half-built 1 ", " ;"),
                    _ => ("", ""),
                };
                s.push(open);
                s.push(pre);
                s.plant(tok);
                s.push(post);
                s.push(close);
                match rng.below(4) {
                    // the failing token's line is the last line of the text and has no line end
                    0 => obs.count("token_on_last_line_without_line_end"),
                    1 => {
                        s.push(rng.pick_str(&[" \\ caf\u{e9} \u{221e}", "  \\ \u{4e16}", " \\( \u{e9} \\)\u{e9}\u{4e16}"]));
                        obs.count("token_on_last_line_without_line_end");
                    }
                    _ => {
                        s.push(sep);
                        filler(&mut rng, &mut s, 1);
                    }
                }
                let name = format!("<buffer#{}>", nsrc(&xs));
                log.push(s.text.clone());
                res = catch(|| xs.eval(&s.text));
                let (off, t) = s.planted.clone().unwrap();
                ex = Expect { source_name: name, text: s.text.clone(), offset: off, token: t, class };
            }
            "called-word-same-source" | "deep-call-chain" | "word-in-meta" => {
                // the failing word sits in a definition; the call happens later (through up to 5 levels)
                let depth = if scenario == "deep-call-chain" { 2 + rng.below(4) } else { 1 };
                s.push(&format!(": lvl0-{} {}", idx % 100, pre));
                s.plant(tok);
                s.push(post);
                s.push(" ;");
                s.push(sep);
                for d in 1..depth {
                    s.push(&format!(": lvl{}-{} lvl{}-{} ;{}", d, idx % 100, d - 1, idx % 100, rng.pick_str(SEPS)));
                }
                filler(&mut rng, &mut s, 1);
                let call = format!("lvl{}-{}", depth - 1, idx % 100);
                if scenario == "word-in-meta" {
                    s.push(&format!("#( {} #)", call));
                } else {
                    s.push(&call);
                }
                let name = format!("<buffer#{}>", nsrc(&xs));
                log.push(s.text.clone());
                res = catch(|| xs.eval(&s.text));
                let (off, t) = s.planted.clone().unwrap();
                if !runtime {
                    // a build-time failure inside the definition is reported right there as well
                }
                ex = Expect { source_name: name, text: s.text.clone(), offset: off, token: t, class };
            }
            "called-word-earlier-source" => {
                s.push(&format!(": far-{} {}", idx % 100, pre));
                s.plant(tok);
                s.push(post);
                s.push(" ;");
                let name = format!("<buffer#{}>", nsrc(&xs));
                log.push(s.text.clone());
                let first = catch(|| xs.eval(&s.text));
                let (off, t) = s.planted.clone().unwrap();
                if runtime {
                    if !matches!(first, Ok(Ok(()))) {
                        obs.count("setup_failed");
                        return;
                    }
                    // one or two unrelated sources in between, then the call from a later source
                    for _ in 0..rng.below(3) {
                        let _ = catch(|| xs.eval(rng.pick_str(FILLERS)));
                    }
                    let mut c = Src::default();
                    filler(&mut rng, &mut c, 1);
                    c.push(&format!("far-{}", idx % 100));
                    log.push(c.text.clone());
                    res = catch(|| xs.eval(&c.text));
                } else {
                    res = first;
                }
                ex = Expect { source_name: name, text: s.text.clone(), offset: off, token: t, class };
            }
            "included-file" | "after-include" => {
                let path = format!("{}/inc{}.xeh", self.scratch, idx % 7);
                let mut f = Src::default();
                let nf = 1 + rng.below(3);
                filler(&mut rng, &mut f, nf);
                if scenario == "included-file" {
                    f.push(pre);
                    f.plant(tok);
                    f.push(post);
                    f.push(rng.pick_str(SEPS));
                    filler(&mut rng, &mut f, 1);
                } else {
                    f.push(": from-include 1 ;");
                }
                if std::fs::write(&path, &f.text).is_err() {
                    obs.count("setup_failed");
                    return;
                }
                s.push(&format!("include \"{}\"{}", path, sep));
                if scenario == "after-include" {
                    // the very first token fetched after the included file ended
                    if rng.flip() {
                        filler(&mut rng, &mut s, 1);
                    }
                    s.push(pre);
                    s.plant(tok);
                    s.push(post);
                }
                log.push(format!("{}\n[file {}]\n{}", s.text, path, f.text));
                let name = format!("<buffer#{}>", nsrc(&xs));
                res = catch(|| xs.eval(&s.text));
                ex = if scenario == "included-file" {
                    let (off, t) = f.planted.clone().unwrap();
                    Expect { source_name: path.clone(), text: f.text.clone(), offset: off, token: t, class }
                } else {
                    let (off, t) = s.planted.clone().unwrap();
                    Expect { source_name: name, text: s.text.clone(), offset: off, token: t, class }
                };
            }
            "file-included-twice" => {
                // a file is loaded, a word keeps a reference to what it defined, the file is loaded again (as it is, or
                // edited in between); the failure is in the code of the first load
                let path = format!("{}/twice{}.xeh", self.scratch, idx % 7);
                let mut f = Src::default();
                let nf = rng.below(3);
                filler(&mut rng, &mut f, nf);
                f.push(&format!(": inc-w{} {}", idx % 100, pre));
                f.plant(tok);
                f.push(post);
                f.push(" ;");
                f.push(rng.pick_str(SEPS));
                if std::fs::write(&path, &f.text).is_err() {
                    obs.count("setup_failed");
                    return;
                }
                let first = format!("include \"{}\"{}: keeper{} inc-w{} ;", path, sep, idx % 100, idx % 100);
                if !matches!(catch(|| xs.eval(&first)), Ok(Ok(()))) {
                    obs.count("setup_failed");
                    return;
                }
                let edited = rng.flip();
                if edited {
                    let mut g = Src::default();
                    filler(&mut rng, &mut g, 1 + nf);
                    g.push(&format!("\n: inc-w{} 1 drop ;\n", idx % 100));
                    if std::fs::write(&path, &g.text).is_err() {
                        obs.count("setup_failed");
                        return;
                    }
                    obs.count("file_included_twice:edited_in_between");
                }
                let second = format!("include \"{}\"", path);
                if !matches!(catch(|| xs.eval(&second)), Ok(Ok(()))) {
                    obs.count("setup_failed");
                    return;
                }
                s.push(&format!("keeper{}", idx % 100));
                log.push(format!("{}\n[file {} at the first load]\n{}\n{}  {}\n{}", first, path, f.text, second, if edited { "(file edited in between)" } else { "(same file)" }, s.text));
                res = catch(|| xs.eval(&s.text));
                let (off, t) = f.planted.clone().unwrap();
                ex = Expect { source_name: path.clone(), text: f.text.clone(), offset: off, token: t, class };
            }
            "immediate-word-fails-during-a-later-build" => {
                // a user-defined immediate word runs while a later source is being built and fails there: the failure is
                // inside the word's definition, not where it is used
                s.push(&format!(": imm-{} immediate {}", idx % 100, pre));
                s.plant(tok);
                s.push(post);
                s.push(" ;");
                let name = format!("<buffer#{}>", nsrc(&xs));
                log.push(s.text.clone());
                if !matches!(catch(|| xs.eval(&s.text)), Ok(Ok(()))) {
                    obs.count("setup_failed");
                    return;
                }
                let mut c = Src::default();
                let nfill = 1 + rng.below(2);
                filler(&mut rng, &mut c, nfill);
                c.push(&format!("imm-{}", idx % 100));
                c.push(rng.pick_str(&["", " 1 drop", "\n2 drop"]));
                log.push(c.text.clone());
                let by_eval = rng.flip();
                res = catch(|| if by_eval { xs.eval(&c.text) } else { xs.compile(&c.text) });
                let (off, t) = s.planted.clone().unwrap();
                ex = Expect { source_name: name, text: s.text.clone(), offset: off, token: t, class };
            }
            "instruction-limit" => {
                // the budget runs out in the middle of a program: the error names the instruction that was refused. Which one
                // that is comes from a twin that steps the same program N times without a limit.
                s.push(&format!("{} 0 do 1 drop {} loop", 3 + rng.below(6), rng.pick_str(&["", "2 3 + drop", ": lw 4 ; lw drop"]).replace(": lw 4 ; lw drop", "5 drop")));
                s.push(sep);
                filler(&mut rng, &mut s, 1);
                let mut twin = xs.clone();
                if !matches!(catch(|| twin.compile(&s.text)), Ok(Ok(()))) || !matches!(catch(|| xs.compile(&s.text)), Ok(Ok(()))) {
                    obs.count("setup_failed");
                    return;
                }
                let n = 1 + rng.below(40);
                let mut done = 0;
                while done < n && twin.is_running() {
                    if twin.next().is_err() {
                        break;
                    }
                    done += 1;
                }
                if done < n || !twin.is_running() {
                    obs.count("setup_failed");
                    return;
                }
                let want = match twin.location_from_current_ip() {
                    Some(l) => l,
                    None => {
                        obs.count("setup_failed");
                        return;
                    }
                };
                let _ = xs.set_insn_limit(Some(n));
                log.push(format!("{}\n(compiled; set_insn_limit({}); run())", s.text, n));
                res = catch(|| xs.run());
                ex = Expect { source_name: want.filename.to_string(), text: s.text.clone(), offset: want.token.range().start, token: want.token.as_str().to_string(), class: "limit-insn" };
            }
            "resumed-run" => {
                // debugger style: the program stops with an underflow, the host repairs the stack and calls run() again;
                // the second failure is reported with its own location
                let (w, need) = *rng.pick(&[("+", 2usize), ("drop", 1), ("swap drop drop", 2)]);
                s.push(w);
                s.push(sep);
                filler(&mut rng, &mut s, 1);
                s.push(pre);
                s.plant(tok);
                s.push(post);
                let name = format!("<buffer#{}>", nsrc(&xs));
                log.push(format!("{}\n(after the underflow: {} value(s) pushed, run() again)", s.text, need));
                let by_eval = rng.flip();
                let first = catch(|| if by_eval { xs.eval(&s.text) } else { xs.compile(&s.text).and_then(|_| xs.run()) });
                if !matches!(&first, Ok(Err(e)) if err_class(e) == "underflow") {
                    obs.count("setup_failed");
                    return;
                }
                for i in 0..need {
                    let _ = xs.push_data(Cell::Int(i as i128));
                }
                res = catch(|| xs.run());
                let (off, t) = s.planted.clone().unwrap();
                ex = Expect { source_name: name, text: s.text.clone(), offset: off, token: t, class };
            }
            "injected-text" => {
                // #( "text" ~) makes the text a source of its own; the failure is inside it or right after it
                let inside = rng.flip();
                let mut inj = Src::default();
                inj.push("1 drop ");
                if inside {
                    inj.push(pre);
                    inj.plant(tok);
                    inj.push(post);
                } else {
                    inj.push("2 drop");
                }
                if inj.text.contains('"') || inj.text.contains('\\') {
                    obs.count("setup_failed");
                    return;
                }
                s.push(&format!("#( \"{}\" ~){}", inj.text, sep));
                if !inside {
                    s.push(pre);
                    s.plant(tok);
                    s.push(post);
                }
                let outer_name = format!("<buffer#{}>", nsrc(&xs));
                let inj_name = format!("<buffer#{}>", nsrc(&xs) + 1);
                log.push(s.text.clone());
                res = catch(|| xs.eval(&s.text));
                ex = if inside {
                    let (off, t) = inj.planted.clone().unwrap();
                    Expect { source_name: inj_name, text: inj.text.clone(), offset: off, token: t, class }
                } else {
                    let (off, t) = s.planted.clone().unwrap();
                    Expect { source_name: outer_name, text: s.text.clone(), offset: off, token: t, class }
                };
            }
            "identical-sources" => {
                // the same text several times; every submission is its own source
                s.push(pre);
                s.plant(tok);
                s.push(post);
                let reps = 2 + rng.below(3);
                let mut last = None;
                let mut name = String::new();
                for _ in 0..reps {
                    name = format!("<buffer#{}>", nsrc(&xs));
                    last = Some(catch(|| xs.eval(&s.text)));
                    let _ = xs.read_stdout();
                }
                log.push(format!("{} times: {}", reps, s.text));
                res = last.unwrap();
                let (off, t) = s.planted.clone().unwrap();
                ex = Expect { source_name: name, text: s.text.clone(), offset: off, token: t, class };
            }
            _ => {
                // "second-error": a failing source, then another failing source: the location is the second one's
                let mut first = Src::default();
                first.push("1 drop nosuch-first");
                let _ = catch(|| xs.eval(&first.text));
                log.push(first.text.clone());
                s.push(pre);
                s.plant(tok);
                s.push(post);
                let name = format!("<buffer#{}>", nsrc(&xs));
                log.push(s.text.clone());
                res = catch(|| xs.eval(&s.text));
                let (off, t) = s.planted.clone().unwrap();
                ex = Expect { source_name: name, text: s.text.clone(), offset: off, token: t, class };
            }
        }
        let res = match res {
            Ok(r) => r,
            Err((m, l)) => {
                // the planted failure is an ordinary error; a crash on the way to reporting it (while the location is
                // being worked out, for instance) leaves the user without the location this property promises
                return self.fail(obs, idx, format!("panic-instead-of-located-error:{}", scenario), &log, format!("expected {} at {:?}; the call panicked: {} at {}", ex.class, ex.token, m, normalise_loc(&l)));
            }
        };
        if !self.check(obs, idx, &xs, &res, &ex, &log, scenario) {
            return;
        }
        obs.add("evaluations", 1);
        obs.shape(fnv1a(format!("{}|{}|{}|{}", scenario, tok, runtime, log.last().cloned().unwrap_or_default()).as_bytes()));
        if idx % 2999 < 2 {
            obs.sample(J::obj(vec![("scenario", J::s(scenario)), ("failing_token", J::s(tok)), ("source", J::s(truncate(log.last().unwrap_or(&String::new()), 300)))]));
        }
    }
    fn boot_mut(&mut self) -> Option<&mut Xstate> {
        Some(&mut self.boot)
    }
    fn describe(&mut self, idx: u64) -> String {
        format!("error-location case #{}", idx)
    }
}
