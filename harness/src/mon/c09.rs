//! C09 — arithmetic, comparison and bitwise words follow exact integer / IEEE semantics.
//! Oracle: checked i128 arithmetic decides representability, u128 arithmetic gives the wrapped value,
//! f64 operations for the real path, own int->real and round implementations.
use super::Monitor;
use crate::render::*;
use crate::util::*;
use crate::Args;
use xeh::prelude::*;

pub struct C09 {
    seed: u64,
    boot: Xstate,
    xs: Xstate,
    /// mode "pyvec": (word, a, b, kind, value) lines computed by Python (see stages.c09_arith_vectors)
    vectors: Vec<String>,
    pyvec: bool,
}

impl C09 {
    pub fn new(a: &Args) -> C09 {
        let boot = Xstate::boot().expect("boot");
        let mut vectors = vec![];
        if a.mode == "pyvec" {
            if let Ok(path) = std::env::var("XV_ARITH_VECTORS") {
                if let Ok(t) = std::fs::read_to_string(path) {
                    vectors = t.lines().map(|l| l.to_string()).collect();
                }
            }
        }
        C09 { seed: a.seed, xs: boot.clone(), boot, vectors, pyvec: a.mode == "pyvec" }
    }
}

#[derive(Clone, Debug)]
enum V {
    I(i128),
    R(f64),
    S(&'static str),
    Nil,
    F(bool),
    Vec1,
}

impl V {
    fn cell(&self) -> Cell {
        match self {
            V::I(i) => Cell::Int(*i),
            V::R(r) => Cell::Real(*r),
            V::S(s) => Cell::from(*s),
            V::Nil => Cell::Nil,
            V::F(b) => Cell::Flag(*b),
            V::Vec1 => Cell::from(xeh::xeh_vec![1]),
        }
    }
    fn class(&self) -> &'static str {
        match self {
            V::I(i) => {
                if *i == 0 {
                    "i0"
                } else if *i == i128::MIN {
                    "imin"
                } else if *i == i128::MAX {
                    "imax"
                } else if *i == -1 {
                    "i-1"
                } else if *i > 0 && (*i as u128).is_power_of_two() {
                    "i2^k"
                } else if *i < 0 {
                    "ineg"
                } else {
                    "ipos"
                }
            }
            V::R(r) => {
                if r.is_nan() {
                    "rnan"
                } else if r.is_infinite() {
                    "rinf"
                } else if *r == 0.0 {
                    "r0"
                } else if r.is_subnormal() {
                    "rsub"
                } else {
                    "rnum"
                }
            }
            V::S(_) => "str",
            V::Nil => "nil",
            V::F(_) => "flag",
            V::Vec1 => "vec",
        }
    }
}

#[derive(Debug)]
enum Exp {
    Int(i128),
    /// not representable: wrapped value or an overflow error
    Wrapped(i128),
    /// IEEE result; NaN matches any NaN
    Real(f64),
    /// any of these (sign-of-zero / NaN-operand freedom)
    RealAny(Vec<f64>),
    Flag(bool),
    DivZero,
    /// real remainder by zero: IEEE NaN or a division error
    DivZeroOrReal(f64),
    /// type error whose payload is one of these operand indexes
    Type(Vec<usize>),
    /// outcome left open by the statement (e.g. shifted-out bits): no check beyond "no panic"
    Open,
}

fn gen_int(rng: &mut Rng) -> i128 {
    match rng.below(14) {
        0 => 0,
        1 => 1,
        2 => -1,
        3 => 2,
        4 => -2,
        5 => i128::MIN,
        6 => i128::MAX,
        7 => i64::MIN as i128,
        8 => i64::MAX as i128,
        9 | 10 => {
            let k = rng.below(127);
            let p = 1i128 << k;
            let d = rng.range(-1, 1) as i128;
            let v = p.wrapping_add(d);
            if rng.flip() {
                v.wrapping_neg()
            } else {
                v
            }
        }
        11 => rng.range(-1000, 1000) as i128,
        12 => (rng.next_u128() >> rng.below(128)) as i128,
        _ => rng.next_u128() as i128,
    }
}

fn gen_real(rng: &mut Rng, allow_nan: bool) -> f64 {
    let r = match rng.below(18) {
        16 | 17 => {
            // +-2^k at the edges of the integer types, and the doubles right next to them
            let k = *rng.pick(&[23i32, 24, 31, 32, 52, 53, 54, 62, 63, 64, 65, 126, 127, 128, -1, -1022, 1023]);
            let x = 2f64.powi(k);
            let x = match rng.below(4) {
                0 => f64::from_bits(x.to_bits() + 1),
                1 => f64::from_bits(x.to_bits() - 1),
                _ => x,
            };
            if rng.flip() {
                -x
            } else {
                x
            }
        }
        0 => 0.0,
        1 => -0.0,
        2 => f64::from_bits(1),
        3 => -f64::from_bits(1),
        4 => f64::MIN_POSITIVE,
        5 => 1.0,
        6 => -1.0,
        7 => f64::MAX,
        8 => f64::MIN,
        9 => f64::INFINITY,
        10 => f64::NEG_INFINITY,
        11 => {
            if allow_nan {
                f64::NAN
            } else {
                2.5
            }
        }
        12 => rng.range(-2000, 2000) as f64 / 4.0,
        13 => rng.range(-9, 9) as f64 + 0.5,
        14 => (rng.next_u64() >> 11) as f64 * if rng.flip() { 1.0 } else { -1.0 } * 2f64.powi(rng.range(-60, 80) as i32),
        _ => {
            let f = f64::from_bits(rng.next_u64());
            f
        }
    };
    if r.is_nan() && !allow_nan {
        1.25
    } else {
        r
    }
}

fn gen_other(rng: &mut Rng) -> V {
    match rng.below(5) {
        0 => V::S("a"),
        1 => V::Nil,
        2 => V::F(true),
        3 => V::Vec1,
        _ => V::S(""),
    }
}

/// i128 -> f64, round to nearest even, implemented on the magnitude
fn int_to_real(a: i128) -> f64 {
    if a == 0 {
        return 0.0;
    }
    let neg = a < 0;
    let m: u128 = a.unsigned_abs();
    let top = 127 - m.leading_zeros() as i32; // index of the highest set bit
    let v = if top <= 52 {
        m as u64 as f64 // exact: fits the mantissa (u64 -> f64 of < 2^53 is exact)
    } else {
        let shift = (top - 52) as u32;
        let mut mant = (m >> shift) as u64; // 53 bits
        let rest = m & ((1u128 << shift) - 1);
        let half = 1u128 << (shift - 1);
        if rest > half || (rest == half && (mant & 1) == 1) {
            mant += 1;
        }
        // mant may be 2^53 now; scaling by a power of two is exact
        (mant as f64) * 2f64.powi(shift as i32)
    };
    if neg {
        -v
    } else {
        v
    }
}

/// round half away from zero without f64::round
fn round_ref(x: f64) -> f64 {
    if x.is_nan() || x.is_infinite() || x.abs() >= 4503599627370496.0 {
        return x;
    }
    let t = (x as i64) as f64; // truncation, exact below 2^52
    let diff = (x - t).abs();
    let r = if diff >= 0.5 {
        if x < 0.0 {
            t - 1.0
        } else {
            t + 1.0
        }
    } else {
        t
    };
    // keep the sign of zero results
    if r == 0.0 && x.is_sign_negative() {
        -0.0
    } else {
        r
    }
}

const WORDS: &[&str] = &[
    "+", "-", "*", "/", "rem", "neg", "abs", "min", "max", "<", "<=", ">", ">=", "==", "<>", "band", "bor", "bxor", "bnot",
    "popcnt", "bsl", "bsr", ">int", ">real", "round", "zero?", "positive?", "negative?",
];

fn arity(w: &str) -> usize {
    match w {
        "neg" | "abs" | "bnot" | "popcnt" | ">int" | ">real" | "round" | "zero?" | "positive?" | "negative?" => 1,
        _ => 2,
    }
}

fn is_cmp(w: &str) -> bool {
    matches!(w, "<" | "<=" | ">" | ">=" | "==" | "<>")
}

fn expect(word: &str, ops: &[V]) -> Exp {
    use V::*;
    if arity(word) == 2 {
        let (a, b) = (&ops[0], &ops[1]);
        let int_only = matches!(word, "band" | "bor" | "bxor" | "bsl" | "bsr");
        match (a, b) {
            (I(a), I(b)) => {
                let (a, b) = (*a, *b);
                match word {
                    "+" => a.checked_add(b).map(Exp::Int).unwrap_or(Exp::Wrapped((a as u128).wrapping_add(b as u128) as i128)),
                    "-" => a.checked_sub(b).map(Exp::Int).unwrap_or(Exp::Wrapped((a as u128).wrapping_sub(b as u128) as i128)),
                    "*" => a.checked_mul(b).map(Exp::Int).unwrap_or(Exp::Wrapped((a as u128).wrapping_mul(b as u128) as i128)),
                    "/" => {
                        if b == 0 {
                            Exp::DivZero
                        } else if a == i128::MIN && b == -1 {
                            Exp::Wrapped(i128::MIN)
                        } else {
                            // truncating division computed on magnitudes
                            let q = (a.unsigned_abs() / b.unsigned_abs()) as i128;
                            Exp::Int(if (a < 0) != (b < 0) { q.wrapping_neg() } else { q })
                        }
                    }
                    "rem" => {
                        if b == 0 {
                            Exp::DivZero
                        } else {
                            let r = (a.unsigned_abs() % b.unsigned_abs()) as i128;
                            Exp::Int(if a < 0 { -r } else { r })
                        }
                    }
                    "min" => Exp::Int(if a < b { a } else { b }),
                    "max" => Exp::Int(if a > b { a } else { b }),
                    "<" => Exp::Flag(a < b),
                    "<=" => Exp::Flag(a <= b),
                    ">" => Exp::Flag(a > b),
                    ">=" => Exp::Flag(a >= b),
                    "==" => Exp::Flag(a == b),
                    "<>" => Exp::Flag(a != b),
                    "band" => Exp::Int(a & b),
                    "bor" => Exp::Int(a | b),
                    "bxor" => Exp::Int(a ^ b),
                    "bsl" => {
                        if !(0..=127).contains(&b) {
                            return Exp::Open;
                        }
                        // exact a * 2^b when representable
                        let wrapped = ((a as u128) << (b as u32)) as i128;
                        if (wrapped >> (b as u32)) == a {
                            Exp::Int(wrapped)
                        } else {
                            Exp::Wrapped(wrapped)
                        }
                    }
                    "bsr" => {
                        if !(0..=127).contains(&b) {
                            return Exp::Open;
                        }
                        // floor(a / 2^b): arithmetic shift
                        let d = 1u128 << (b as u32);
                        if a >= 0 {
                            Exp::Int(((a as u128) / d) as i128)
                        } else {
                            // floor division of a negative number
                            let m = a.unsigned_abs();
                            let q = m / d + if m % d != 0 { 1 } else { 0 };
                            Exp::Int((q as i128).wrapping_neg())
                        }
                    }
                    _ => Exp::Open,
                }
            }
            (R(x), R(y)) if !int_only => {
                let (x, y) = (*x, *y);
                match word {
                    "+" => Exp::Real(x + y),
                    "-" => Exp::Real(x - y),
                    "*" => Exp::Real(x * y),
                    "/" => {
                        if y == 0.0 {
                            Exp::DivZero
                        } else {
                            Exp::Real(x / y)
                        }
                    }
                    "rem" => {
                        if y == 0.0 {
                            Exp::DivZeroOrReal(f64::NAN)
                        } else {
                            Exp::Real(x % y)
                        }
                    }
                    "min" | "max" => {
                        if x.is_nan() || y.is_nan() || x == y {
                            Exp::RealAny(vec![x, y])
                        } else if word == "min" {
                            Exp::Real(if x < y { x } else { y })
                        } else {
                            Exp::Real(if x > y { x } else { y })
                        }
                    }
                    "<" => Exp::Flag(x < y),
                    "<=" => Exp::Flag(x <= y),
                    ">" => Exp::Flag(x > y),
                    ">=" => Exp::Flag(x >= y),
                    "==" => Exp::Flag(x == y),
                    "<>" => Exp::Flag(x != y),
                    _ => Exp::Open,
                }
            }
            // mixed or non-numeric operands: a type error naming one of the operands
            _ => Exp::Type(vec![0, 1]),
        }
    } else {
        let a = &ops[0];
        match (word, a) {
            ("neg", I(a)) => a.checked_neg().map(Exp::Int).unwrap_or(Exp::Wrapped(i128::MIN)),
            ("neg", R(x)) => Exp::Real(-*x),
            ("abs", I(a)) => {
                if *a == i128::MIN {
                    Exp::Wrapped(i128::MIN)
                } else {
                    Exp::Int(if *a < 0 { -*a } else { *a })
                }
            }
            ("abs", R(x)) => Exp::Real(f64::from_bits(x.to_bits() & !(1u64 << 63))),
            ("bnot", I(a)) => Exp::Int(-1 - *a),
            ("popcnt", I(a)) => {
                let mut n = 0;
                let mut u = *a as u128;
                while u != 0 {
                    n += (u & 1) as i128;
                    u >>= 1;
                }
                Exp::Int(n)
            }
            (">int", I(a)) => Exp::Int(*a),
            (">int", R(x)) => {
                // inside the i128 range: truncation toward zero
                if *x >= -(2f64.powi(127)) && *x < 2f64.powi(127) {
                    let t = x.trunc();
                    // exact conversion of an integral double: via magnitude bits
                    let bits = t.abs().to_bits();
                    let e = ((bits >> 52) & 0x7ff) as i32;
                    let mag: u128 = if t == 0.0 {
                        0
                    } else {
                        let m = (bits & ((1u64 << 52) - 1)) | (1u64 << 52);
                        let sh = e - 1075;
                        if sh >= 0 {
                            (m as u128) << sh
                        } else {
                            (m as u128) >> (-sh)
                        }
                    };
                    Exp::Int(if t < 0.0 { (mag as i128).wrapping_neg() } else { mag as i128 })
                } else {
                    Exp::Open
                }
            }
            (">real", I(a)) => Exp::Real(int_to_real(*a)),
            (">real", R(x)) => Exp::Real(*x),
            ("round", R(x)) => Exp::Real(round_ref(*x)),
            ("zero?", I(a)) => Exp::Flag(*a == 0),
            ("zero?", R(x)) => Exp::Flag(*x == 0.0),
            ("positive?", I(a)) => Exp::Flag(*a > 0),
            ("positive?", R(x)) => Exp::Flag(*x > 0.0),
            ("negative?", I(a)) => Exp::Flag(*a < 0),
            ("negative?", R(x)) => Exp::Flag(*x < 0.0),
            _ => Exp::Type(vec![0]),
        }
    }
}

fn real_same(a: f64, b: f64) -> bool {
    (a.is_nan() && b.is_nan()) || a.to_bits() == b.to_bits()
}

impl C09 {
    fn one(&mut self, word: &str, ops: &[V], idx: u64, obs: &mut Obs, via_literals: bool, tagged: u8) {
        let exp = expect(word, ops);
        // a sentinel below the operands must survive untouched
        let sentinel = Cell::from("sentinel");
        let src;
        let r = if via_literals {
            let mut s = String::from("\"sentinel\" ");
            for o in ops {
                if let V::I(i) = o {
                    s.push_str(&format!("{} ", i));
                }
            }
            s.push_str(word);
            src = s.clone();
            let xs = &mut self.xs;
            catch(|| xs.eval(&s))
        } else {
            src = format!("{:?} {}{}", ops, word, if tagged != 0 { format!(" (operands tagged: mask {})", tagged) } else { String::new() });
            let xs = &mut self.xs;
            // a number that carries tags (every number read from binary input does) is still that number
            let ops2: Vec<Cell> = ops.iter().enumerate().map(|(i, o)| if tagged & (1 << i) != 0 { o.cell().with_tags(Xmap::new().insert(Cell::from("k"), Cell::Int(1))) } else { o.cell() }).collect();
            let sent = sentinel.clone();
            catch(|| {
                xs.push_data(sent)?;
                for c in ops2 {
                    xs.push_data(c)?;
                }
                xs.eval(word)
            })
        };
        let classes: Vec<&str> = ops.iter().map(|o| o.class()).collect();
        let mut outcome = "ok";
        let mut bad: Option<(String, String)> = None;
        match r {
            Err((m, l)) => {
                outcome = "panic";
                bad = Some(("panic".into(), format!("panic {} at {}", m, l)));
            }
            Ok(Ok(())) => {
                let depth = self.xs.data_depth();
                let top = self.xs.get_data(0).cloned();
                let below = self.xs.get_data(1).cloned();
                if depth != 2 || below.as_ref() != Some(&sentinel) {
                    bad = Some(("stack".into(), format!("depth {} below={:?}", depth, below.map(|c| show(&c)))));
                } else {
                    let top = top.unwrap();
                    if top.tags().is_some() && tagged == 0 {
                        bad = Some(("tagged-result".into(), show(&top)));
                    }
                    if tagged != 0 {
                        obs.count("tuples_with_tagged_operand");
                    }
                    // (whether a result may keep an operand's tags is C13's question)
                    let top = top.value().clone();
                    match (&exp, &top) {
                        (Exp::Int(e), Cell::Int(g)) if e == g => outcome = "exact",
                        (Exp::Wrapped(e), Cell::Int(g)) if e == g => outcome = "wrapped",
                        (Exp::Real(e), Cell::Real(g)) if real_same(*e, *g) => outcome = "real",
                        (Exp::RealAny(es), Cell::Real(g)) if es.iter().any(|e| real_same(*e, *g)) => outcome = "real",
                        (Exp::DivZeroOrReal(e), Cell::Real(g)) if real_same(*e, *g) => outcome = "real",
                        (Exp::Flag(e), Cell::Flag(g)) if e == g => outcome = "flag",
                        (Exp::Open, _) => outcome = "open",
                        _ => {
                            if bad.is_none() {
                                bad = Some(("value".into(), format!("got {} expected {:?}", show(&top), exp)));
                            }
                        }
                    }
                }
            }
            Ok(Err(e)) => {
                match (&exp, &e) {
                    (Exp::Wrapped(_), Xerr::IntegerOverflow) => outcome = "overflow-error",
                    (Exp::DivZero, Xerr::DivisionByZero) | (Exp::DivZeroOrReal(_), Xerr::DivisionByZero) => outcome = "division-error",
                    (Exp::Type(which), Xerr::TypeErrorMsg { val, .. }) | (Exp::Type(which), Xerr::TypeNotSupported { val }) => {
                        let payload = show_untagged(val);
                        if which.iter().any(|i| show_untagged(&ops[*i].cell()) == payload) {
                            outcome = "type-error";
                        } else {
                            bad = Some(("type-error-payload".into(), format!("type error reports {} which is none of the operands", payload)));
                        }
                    }
                    (Exp::Open, _) => outcome = "open",
                    _ => bad = Some(("error".into(), format!("got error {} expected {:?}", show_err(&e), exp))),
                }
                // an error leaves contexts open (C10): start from a fresh interpreter
                self.xs = self.boot.clone();
            }
        }
        let shape = format!("{} {} -> {}", word, classes.join(","), outcome);
        obs.shape(fnv1a(shape.as_bytes()));
        obs.count(&format!("outcome:{}", outcome));
        obs.see("words", word);
        if let Some((class, detail)) = bad {
            obs.violation(Violation {
                class: format!("{}:{}", word, class),
                sig: format!("C09:{}:{}", word, class),
                index: idx,
                case: src,
                detail,
            });
            self.xs = self.boot.clone();
        } else if self.xs.data_depth() > 0 {
            // clean the stack for the next tuple
            let n = self.xs.data_depth();
            for _ in 0..n {
                let _ = self.xs.pop_data();
            }
        }
    }
}

impl C09 {
    /// one reference vector: the expected outcome was computed by Python's unbounded integers / doubles
    fn vector_case(&mut self, idx: u64, obs: &mut Obs) {
        if self.vectors.is_empty() {
            obs.count("pyvec:no-vectors");
            return;
        }
        let line = self.vectors[(idx as usize) % self.vectors.len()].clone();
        let f: Vec<&str> = line.split('\t').collect();
        if f.len() != 5 {
            return;
        }
        let parse = |t: &str| -> Option<Cell> {
            if t == "-" {
                None
            } else if let Some(h) = t.strip_prefix('r') {
                u64::from_str_radix(h, 16).ok().map(|b| Cell::Real(f64::from_bits(b)))
            } else {
                t.parse::<i128>().ok().map(Cell::Int)
            }
        };
        let (word, kind, value) = (f[0], f[3], f[4]);
        let mut xs = self.boot.clone();
        let mut n = 0;
        for t in [f[1], f[2]] {
            if let Some(c) = parse(t) {
                let _ = xs.push_data(c);
                n += 1;
            }
        }
        let r = catch(|| xs.eval(word));
        let top = xs.get_data(0).cloned();
        let depth = xs.data_depth();
        let bad = |obs: &mut Obs, class: &str, detail: String| {
            obs.violation(Violation { class: format!("pyvec:{}:{}", word, class), sig: format!("C09:pyvec:{}:{}", word, class), index: idx, case: line.clone(), detail });
        };
        obs.count("pyvec:vectors");
        obs.see("pyvec_words", word);
        obs.count(&format!("pyvec:kind:{}", kind));
        match r {
            Err((m, l)) => return bad(obs, "panic", format!("panic {} at {}", m, normalise_loc(&l))),
            Ok(Err(e)) => {
                let class = err_class(&e);
                let ok = match kind {
                    "div0" => class == "div-zero",
                    "wrap" => class == "int-overflow",
                    // a real rem-free division by zero is a division error; anything else must not fail
                    _ => false,
                };
                if !ok {
                    return bad(obs, "error", format!("{} on {} operand(s) raised {}, Python says {} {}", word, n, show_err(&e), kind, value));
                }
            }
            Ok(Ok(())) => {
                let t = match top {
                    Some(t) if depth == 1 => t,
                    _ => return bad(obs, "stack", format!("depth {}", depth)),
                };
                let ok = match (kind, t.value()) {
                    ("exact", Cell::Int(v)) | ("wrap", Cell::Int(v)) => value.parse::<i128>().ok() == Some(*v),
                    ("flag", Cell::Flag(b)) => (value == "true") == *b,
                    ("real", Cell::Real(x)) => u64::from_str_radix(value, 16).ok() == Some(x.to_bits()),
                    ("nan", Cell::Real(x)) => x.is_nan(),
                    _ => false,
                };
                if !ok {
                    return bad(obs, "value", format!("got {}, Python says {} {}", show(&t), kind, value));
                }
            }
        }
        obs.add("evaluations", 1);
        obs.shape(fnv1a(line.as_bytes()));
        if idx % 9973 == 0 {
            obs.sample(J::obj(vec![("python_vector", J::s(line))]));
        }
    }
}

impl Monitor for C09 {
    fn run_case(&mut self, idx: u64, obs: &mut Obs) {
        if self.pyvec {
            return self.vector_case(idx, obs);
        }
        let mut rng = Rng::for_case("C09", self.seed, idx);
        // the long-lived interpreter follows the boot interpreter's recording setting (a fresh, empty log per case)
        self.xs.set_recording_enabled(false);
        self.xs.set_recording_enabled(self.boot.is_recording());
        let word = WORDS[(idx % WORDS.len() as u64) as usize];
        let n = arity(word);
        for k in 0..48 {
            let kind = rng.below(20);
            let allow_nan = !is_cmp(word);
            let ops: Vec<V> = match kind {
                0..=9 => (0..n).map(|_| V::I(gen_int(&mut rng))).collect(),
                10..=15 => (0..n).map(|_| V::R(gen_real(&mut rng, allow_nan))).collect(),
                16 if n == 2 => {
                    // mixed int/real
                    if rng.flip() {
                        vec![V::I(gen_int(&mut rng)), V::R(gen_real(&mut rng, allow_nan))]
                    } else {
                        vec![V::R(gen_real(&mut rng, allow_nan)), V::I(gen_int(&mut rng))]
                    }
                }
                17 if n == 2 => {
                    // two non-numeric operands, equal or not: still not numbers
                    let a = gen_other(&mut rng);
                    let b = if rng.flip() { a.clone() } else { gen_other(&mut rng) };
                    obs.count("tuples_with_two_non_numeric_operands");
                    vec![a, b]
                }
                _ => {
                    // one non-numeric operand
                    let mut v: Vec<V> = (0..n).map(|_| if rng.flip() { V::I(gen_int(&mut rng)) } else { V::R(gen_real(&mut rng, allow_nan)) }).collect();
                    let p = rng.below(n);
                    v[p] = gen_other(&mut rng);
                    v
                }
            };
            let mut ops = ops;
            if (word == "bsl" || word == "bsr") && matches!(ops[1], V::I(_)) {
                ops[1] = V::I(rng.below(128) as i128);
            }
            if word == ">int" {
                if let V::R(x) = ops[0] {
                    if !(x >= -(2f64.powi(127)) && x < 2f64.powi(127)) {
                        ops[0] = V::R(gen_real(&mut rng, false).clamp(-1.0e38, 1.0e38));
                    }
                }
            }
            if word == "round" || word == ">real" || word == ">int" {
                obs.count("conversions");
            }
            let via_literals = k % 8 == 7 && ops.iter().all(|o| matches!(o, V::I(_)));
            let tagged = if !via_literals && rng.chance(1, 8) { 1 + rng.below(3) as u8 } else { 0 };
            self.one(word, &ops, idx, obs, via_literals, tagged);
            if idx < 28 && k == 0 {
                obs.sample(J::obj(vec![("word", J::s(word)), ("operands", J::s(format!("{:?}", ops)))]));
            }
        }
    }
    fn boot_mut(&mut self) -> Option<&mut Xstate> {
        Some(&mut self.boot)
    }
    fn describe(&mut self, idx: u64) -> String {
        format!("word {} with 48 operand tuples from seed {} index {}", WORDS[(idx % WORDS.len() as u64) as usize], self.seed, idx)
    }
}
