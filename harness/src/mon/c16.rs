//! C16 — the lexer is total, loses no text, and reads literals as written.
//! Oracles: (a) tiling — the token texts reported by Lex::next are contiguous and reproduce the input up to the first
//! error, every call makes progress, at most len+2 calls; (b) an independent reading of the literal grammar written
//! from the documentation (integers in every spelling, strings with escapes, bit-strings, comments), reals against
//! Python's float() through reference vectors; (c) print -> read round trip of integers, bit-strings and collections.
use super::Monitor;
use crate::mon::c12::{bits_to_bitstr, MV};
use crate::mon::c15::truncate;
use crate::render::*;
use crate::util::*;
use crate::Args;
use xeh::lex::{Lex, Tok};
use xeh::prelude::*;

pub struct C16 {
    seed: u64,
    boot: Xstate,
    words: Vec<String>,
    /// (text, Some(f64 bits) | None = Python rejects it)
    float_vectors: Vec<(String, Option<u64>)>,
    /// spelling without '_' -> reference bits
    float_ref: std::collections::HashMap<String, Option<u64>>,
}

impl C16 {
    pub fn new(a: &Args) -> C16 {
        let mut boot = Xstate::boot().expect("boot");
        boot.intercept_stdout(true);
        let _ = boot.set_insn_limit(Some(20_000));
        let words = boot.word_list().iter().map(|w| w.to_string()).collect();
        let mut float_vectors = vec![];
        if let Ok(path) = std::env::var("XV_FLOAT_VECTORS") {
            if let Ok(text) = std::fs::read_to_string(&path) {
                for line in text.lines() {
                    let mut it = line.split('\t');
                    if let (Some(t), Some(v)) = (it.next(), it.next()) {
                        let bits = if v == "ERR" { None } else { u64::from_str_radix(v, 16).ok() };
                        float_vectors.push((t.to_string(), bits));
                    }
                }
            }
        }
        let float_ref = float_vectors.iter().map(|(t, b)| (t.chars().filter(|c| *c != '_').collect::<String>(), *b)).collect();
        C16 { seed: a.seed, boot, words, float_vectors, float_ref }
    }
}

// ------------------------------------------------------------------------------------------------ independent lexical spec
#[derive(Debug, Clone, PartialEq)]
pub enum SpecTok {
    Ws,
    Comment,
    Word,
    Int(i128),
    /// real literal: the digits text with '_' removed (value is checked against the reference vectors)
    Real(String),
    Str(String),
    Bits(Vec<u8>),
}

fn is_ws(c: char) -> bool {
    matches!(c, ' ' | '\t' | '\n' | '\r' | '\x0c')
}

/// reads one token starting at byte `start`; Ok((token, end)) or Err(()) for text the documentation calls malformed
pub fn spec_next(text: &str, start: usize) -> Result<(SpecTok, usize), ()> {
    let rest = &text[start..];
    let mut chars = rest.char_indices().peekable();
    let (_, c0) = chars.next().ok_or(())?;
    if is_ws(c0) {
        let mut end = start + 1;
        for (i, c) in rest.char_indices().skip(1) {
            if is_ws(c) {
                end = start + i + c.len_utf8();
            } else {
                break;
            }
        }
        return Ok((SpecTok::Ws, end));
    }
    if c0 == '"' || c0 == '\u{201c}' {
        let mut out = String::new();
        let mut it = rest.char_indices().skip(1);
        while let Some((i, c)) = it.next() {
            if c == '\\' {
                match it.next() {
                    Some((_, '\\')) => out.push('\\'),
                    Some((_, '"')) => out.push('"'),
                    Some((_, 'n')) => out.push('\n'),
                    Some((_, 'r')) => out.push('\r'),
                    Some((_, 't')) => out.push('\t'),
                    _ => return Err(()),
                }
            } else if c == '"' || c == '\u{201d}' {
                let end = start + i + c.len_utf8();
                // a closing quote must be followed by whitespace or the end of the text
                return match text[end..].chars().next() {
                    None => Ok((SpecTok::Str(out), end)),
                    Some(n) if is_ws(n) => Ok((SpecTok::Str(out), end)),
                    _ => Err(()),
                };
            } else {
                out.push(c);
            }
        }
        return Err(());
    }
    if c0 == '|' {
        let mut bits = vec![];
        for (i, c) in rest.char_indices().skip(1) {
            if let Some(d) = c.to_digit(16) {
                for k in (0..4).rev() {
                    bits.push(((d >> k) & 1) as u8);
                }
            } else if is_ws(c) {
            } else if c == '.' {
                bits.push(0);
            } else if c == 'x' {
                bits.push(1);
            } else if c == '|' {
                return Ok((SpecTok::Bits(bits), start + i + 1));
            } else {
                return Err(());
            }
        }
        return Err(());
    }
    // a run of non-whitespace characters
    let mut end = text.len();
    for (i, c) in rest.char_indices() {
        if is_ws(c) {
            end = start + i;
            break;
        }
    }
    let tok = &text[start..end];
    let b = tok.as_bytes();
    let numeric = b[0].is_ascii_digit() || ((b[0] == b'-' || b[0] == b'+') && b.len() > 1 && b[1].is_ascii_digit());
    if !numeric {
        if tok == "\\" {
            // comment to the end of the line (the newline is not part of it)
            let e = text[end..].find('\n').map(|i| end + i).unwrap_or(text.len());
            return Ok((SpecTok::Comment, e));
        }
        if tok == "\\(" {
            // up to the first whitespace + "\)" that is followed by whitespace or the end of the text
            let tb = text.as_bytes();
            let mut i = end;
            while i < tb.len() {
                if is_ws(tb[i] as char) && tb[i] < 0x80 && i + 2 < tb.len() + 0 && tb.get(i + 1) == Some(&b'\\') && tb.get(i + 2) == Some(&b')') {
                    match tb.get(i + 3) {
                        None => return Ok((SpecTok::Comment, i + 3)),
                        Some(w) if is_ws(*w as char) && *w < 0x80 => return Ok((SpecTok::Comment, i + 4)),
                        _ => {}
                    }
                }
                i += 1;
            }
            return Err(());
        }
        return Ok((SpecTok::Word, end));
    }
    // ---- numeric literal
    let (neg, body) = match b[0] {
        b'-' => (true, &tok[1..]),
        b'+' => (false, &tok[1..]),
        _ => (false, tok),
    };
    let (radix, digits): (u32, &str) = if body.starts_with("0x") {
        (16, &body[2..])
    } else if body.starts_with("0b") {
        (2, &body[2..])
    } else if body.starts_with('0') {
        (16, body)
    } else {
        (10, body)
    };
    if body.contains('.') {
        if body.starts_with("0x") || body.starts_with("0b") {
            return Err(());
        }
        let clean: String = tok.chars().filter(|c| *c != '_').collect();
        return Ok((SpecTok::Real(clean), end));
    }
    let clean: String = digits.chars().filter(|c| *c != '_').collect();
    if clean.is_empty() {
        return Err(());
    }
    let mut mag: u128 = 0;
    for c in clean.chars() {
        let d = c.to_digit(radix).ok_or(())? as u128;
        mag = mag.checked_mul(radix as u128).ok_or(())?.checked_add(d).ok_or(())?;
    }
    let v: i128 = if neg {
        if mag > (1u128 << 127) {
            return Err(());
        }
        (mag as i128).wrapping_neg()
    } else {
        if mag > i128::MAX as u128 {
            return Err(());
        }
        mag as i128
    };
    Ok((SpecTok::Int(v), end))
}

// ------------------------------------------------------------------------------------------------ text generators
const WS: &[&str] = &[" ", "  ", "\t", "\n", "\r\n", "\x0c", " \n ", "\r"];
const ODD_SPACES: &[&str] = &["\u{a0}", "\u{2028}", "\u{3000}", "\u{200b}", "\u{85}"];
const UNI: &[&str] = &["\u{e9}", "\u{4e16}\u{754c}", "\u{1f600}", "\u{301}", "\u{661}\u{662}", "\u{201c}", "\u{201d}", "\u{ff11}"];

fn gen_int_text(rng: &mut Rng) -> String {
    let sign = *rng.pick(&["", "", "-", "+"]);
    let (prefix, radix) = *rng.pick(&[("", 10u32), ("", 10), ("0x", 16), ("0b", 2), ("0", 16), ("00", 16)]);
    let mag: u128 = match rng.below(10) {
        0 => 0,
        1 => i128::MAX as u128,
        2 => (i128::MAX as u128) + 1,
        3 => (i128::MAX as u128) + 2,
        4 => u128::MAX,
        5 => 1u128 << rng.below(128),
        6 => (1u128 << rng.below(128)).wrapping_sub(1),
        7 => rng.below(300) as u128,
        _ => rng.next_u128() >> rng.below(128),
    };
    let mut digits = match radix {
        16 => {
            if rng.flip() {
                format!("{:x}", mag)
            } else {
                format!("{:X}", mag)
            }
        }
        2 => format!("{:b}", mag),
        _ => format!("{}", mag),
    };
    if rng.chance(1, 12) {
        // one digit too many / beyond u128
        digits.push_str(rng.pick_str(&["0", "9", "f", "1"]));
        digits = format!("3{}", digits);
    }
    if rng.chance(1, 4) && digits.len() > 1 {
        let at = 1 + rng.below(digits.len() - 1);
        digits.insert(at, '_');
    }
    if rng.chance(1, 20) {
        digits.push('_');
    }
    if rng.chance(1, 14) {
        // a malformed digit
        let at = rng.below(digits.len() + 1);
        digits.insert_str(at, rng.pick_str(&["g", "z", "2", "8", "x", "-", "\u{e9}", "e5"]));
    }
    format!("{}{}{}", sign, prefix, digits)
}

fn gen_str_text(rng: &mut Rng) -> String {
    let mut s = String::from(if rng.chance(1, 8) { "\u{201c}" } else { "\"" });
    for _ in 0..rng.below(8) {
        match rng.below(12) {
            0 => s.push_str("\\n"),
            1 => s.push_str("\\t"),
            2 => s.push_str("\\r"),
            3 => s.push_str("\\\\"),
            4 => s.push_str("\\\""),
            5 => s.push_str(rng.pick_str(UNI)),
            6 => s.push_str(rng.pick_str(WS)),
            7 if rng.chance(1, 4) => s.push_str(rng.pick_str(&["\\q", "\\0", "\\x41", "\\ ", "\\\u{e9}"])),
            _ => s.push_str(rng.pick_str(&["a", "bc", "|", "\\\\n", "#(", "1", "x."])),
        }
    }
    if !rng.chance(1, 10) {
        s.push_str(if rng.chance(1, 8) { "\u{201d}" } else { "\"" });
    }
    if rng.chance(1, 12) {
        s.push_str(rng.pick_str(&["x", "\"", "1", "|"]));
    }
    s
}

fn gen_bits_text(rng: &mut Rng) -> String {
    let mut s = String::from("|");
    for _ in 0..rng.below(14) {
        match rng.below(10) {
            0 => s.push(' '),
            1 => s.push('x'),
            2 => s.push('.'),
            3 if rng.chance(1, 5) => s.push_str(rng.pick_str(&["g", "X", "-", "\u{e9}", "_", "\n"])),
            _ => s.push_str(&format!("{:X}", rng.below(16))),
        }
    }
    if !rng.chance(1, 10) {
        s.push('|');
    }
    s
}

fn gen_real_text(rng: &mut Rng) -> String {
    let sign = *rng.pick(&["", "-", "+"]);
    let int: String = (0..1 + rng.below(20)).map(|_| char::from(b'0' + rng.below(10) as u8)).collect();
    let frac: String = (0..rng.below(25)).map(|_| char::from(b'0' + rng.below(10) as u8)).collect();
    let exp = match rng.below(6) {
        0 => format!("e{}", rng.range(-330, 330)),
        1 => format!("E+{}", rng.below(310)),
        2 => "e".to_string(),
        _ => String::new(),
    };
    let int = if rng.chance(1, 3) { int.trim_start_matches('0').to_string() } else { int };
    let int = if int.is_empty() { "1".to_string() } else { int };
    format!("{}{}.{}{}", sign, int, frac, exp)
}

impl C16 {
    fn gen_text(&self, rng: &mut Rng) -> String {
        let mut s = String::new();
        let n = 1 + rng.below(if small() { 4 } else { 14 });
        for _ in 0..n {
            match rng.below(20) {
                0 | 1 | 2 => s.push_str(&gen_int_text(rng)),
                3 | 4 => s.push_str(&gen_str_text(rng)),
                5 | 6 => s.push_str(&gen_bits_text(rng)),
                7 => {
                    // real spellings come from the reference vectors when they are available
                    if self.float_vectors.is_empty() || rng.chance(1, 10) {
                        s.push_str(&gen_real_text(rng))
                    } else {
                        s.push_str(&self.float_vectors[rng.below(self.float_vectors.len())].0)
                    }
                }
                8 => s.push_str(&self.words[rng.below(self.words.len())]),
                9 => s.push_str(rng.pick_str(&["\\ a comment", "\\", "\\( multi\nline \\)", "\\( \\( nested \\) \\)", "\\( unterminated", "\\(x", "\\)", "\\( \\)", "\\( a \\)b \\)", "\\\\", "\\( \u{e9} \\)"])),
                10 => s.push_str(rng.pick_str(UNI)),
                11 => s.push_str(rng.pick_str(ODD_SPACES)),
                12 => s.push_str(rng.pick_str(&["-", "+", "-x", "+.", "1-", "--1", "0x", "0b", "0x.", "1..2", "1.2.3", "-.5", "1e5", "0x1.8", "0b1.1", "1_", "_1", "1__0", "-0", "+0x_ff"])),
                13 => {
                    if !self.float_vectors.is_empty() {
                        s.push_str(&self.float_vectors[rng.below(self.float_vectors.len())].0)
                    }
                }
                14 => s.push_str(rng.pick_str(&["#(", "#)", "[", "]", "{", "}", "^{", ":", ";", "!"])),
                _ => s.push_str(rng.pick_str(&["abc", "x", "dup", "A-Z", "caf\u{e9}", "12ab", "a\"b", "a|b"])),
            }
            // separators: mostly whitespace, sometimes nothing (tokens glued together)
            if !rng.chance(1, 9) {
                s.push_str(rng.pick_str(WS));
            }
        }
        s
    }

    fn fail(&self, obs: &mut Obs, idx: u64, class: &str, text: &str, detail: String) {
        obs.violation(Violation { class: class.to_string(), sig: format!("C16:{}", class), index: idx, case: format!("{:?}", text), detail });
    }

    fn lex_case(&mut self, idx: u64, obs: &mut Obs) {
        let mut rng = Rng::for_case("C16", self.seed, idx);
        let text = self.gen_text(&mut rng);
        let mut lex = Lex::new(Xstr::from(text.as_str()));
        let mut pos = 0usize; // end of the previous token
        let mut calls = 0usize;
        let limit = text.len() + 2;
        loop {
            calls += 1;
            if calls > limit {
                return self.fail(obs, idx, "no-progress", &text, format!("{} calls of Lex::next on {} bytes", calls, text.len()));
            }
            let r = catch(|| lex.next());
            let r = match r {
                Ok(r) => r,
                Err((m, l)) => return self.fail(obs, idx, "panic", &text, format!("Lex::next panicked at byte {}: {} at {}", pos, m, normalise_loc(&l))),
            };
            let sub = match catch(|| lex.last_substr()) {
                Ok(s) => s,
                Err((m, l)) => return self.fail(obs, idx, "panic", &text, format!("last_substr panicked after byte {}: {} at {}", pos, m, normalise_loc(&l))),
            };
            let range = sub.range();
            // contiguity: this token starts where the previous one ended, inside the text, on a character boundary
            if range.start != pos || range.end > text.len() || range.end < range.start || !text.is_char_boundary(range.end) {
                return self.fail(obs, idx, "tiling", &text, format!("token {:?} covers bytes {:?}, the previous token ended at {}", sub.as_str(), range, pos));
            }
            if sub.as_str() != &text[range.clone()] {
                return self.fail(obs, idx, "tiling", &text, format!("token text {:?} is not the input at {:?}", sub.as_str(), range));
            }
            let spec = spec_next(&text, pos);
            match (&r, &spec) {
                (Ok(Tok::EndOfInput), _) => {
                    if pos != text.len() || range.end != pos {
                        return self.fail(obs, idx, "early-end", &text, format!("EndOfInput at byte {} of {}", pos, text.len()));
                    }
                    obs.count("texts_lexed_to_the_end");
                    break;
                }
                (Ok(tok), Ok((st, end))) => {
                    if range.end == range.start {
                        return self.fail(obs, idx, "no-progress", &text, format!("token {:?} consumed nothing at byte {}", tok, pos));
                    }
                    if range.end != *end {
                        return self.fail(obs, idx, "token-extent", &text, format!("token at byte {} ends at {} ({:?}), the documented grammar ends it at {} ({:?})", pos, range.end, sub.as_str(), end, &text[pos..*end]));
                    }
                    let ok = match (tok, st) {
                        (Tok::Whitespace(w), SpecTok::Ws) => w.as_str() == sub.as_str(),
                        (Tok::Comment(c), SpecTok::Comment) => c.as_str() == sub.as_str(),
                        (Tok::Word(w), SpecTok::Word) => w.as_str() == sub.as_str(),
                        (Tok::Literal(Cell::Int(i)), SpecTok::Int(v)) => i == v,
                        (Tok::Literal(Cell::Str(s)), SpecTok::Str(v)) => s.as_str() == v.as_str(),
                        (Tok::Literal(Cell::Bitstr(b)), SpecTok::Bits(v)) => b.bits().collect::<Vec<u8>>() == *v,
                        (Tok::Literal(Cell::Real(x)), SpecTok::Real(clean)) => {
                            // reference vectors (Python float) when available for this spelling, else the strict grammar must hold
                            match self.float_ref.get(clean).map(|b| ((), *b)) {
                                Some((_, Some(bits))) => {
                                    obs.count("reals_checked_against_python");
                                    x.to_bits() == bits
                                }
                                Some((_, None)) => false,
                                None => {
                                    obs.count("reals_without_reference");
                                    true
                                }
                            }
                        }
                        _ => false,
                    };
                    if !ok {
                        let cls = match st {
                            SpecTok::Int(_) => "int-value",
                            SpecTok::Real(_) => "real-value",
                            SpecTok::Str(_) => "string-value",
                            SpecTok::Bits(_) => "bitstr-value",
                            _ => "token-kind",
                        };
                        return self.fail(obs, idx, cls, &text, format!("token {:?} at byte {} was read as {:?}, the documented grammar reads {:?}", sub.as_str(), pos, tok, st));
                    }
                    obs.count(&format!(
                        "tok:{}",
                        match st {
                            SpecTok::Ws => "ws",
                            SpecTok::Comment => "comment",
                            SpecTok::Word => "word",
                            SpecTok::Int(_) => "int",
                            SpecTok::Real(_) => "real",
                            SpecTok::Str(_) => "str",
                            SpecTok::Bits(_) => "bitstr",
                        }
                    ));
                    pos = range.end;
                }
                (Ok(tok), Err(())) => {
                    // malformed according to the documentation but accepted
                    // (a real whose digits Python rejects is decided by the vectors; without vectors fall through)
                    return self.fail(obs, idx, "malformed-accepted", &text, format!("text at byte {} ({:?}) is malformed but was read as {:?}", pos, truncate(&text[pos..], 40), tok));
                }
                (Err(e), Ok((st, end))) => {
                    // a real literal may legitimately be rejected when the conversion rejects it
                    if let SpecTok::Real(clean) = st {
                        let strict = is_strict_decimal(clean);
                        let py = self.float_ref.get(clean).map(|b| b.is_some());
                        if strict || py == Some(true) {
                            return self.fail(obs, idx, "valid-real-rejected", &text, format!("{:?} is a valid decimal real but was rejected: {}", clean, show_err(e)));
                        }
                        obs.count("err:real-rejected");
                        obs.see("error_kinds", &err_class(e));
                        break;
                    }
                    return self.fail(obs, idx, "valid-rejected", &text, format!("text at byte {} ({:?}) is a well-formed {:?} but was rejected: {}", pos, &text[pos..*end], st, show_err(e)));
                }
                (Err(e), Err(())) => {
                    obs.count("malformed_rejected");
                    obs.see("error_kinds", &format!("{}", e));
                    break;
                }
            }
        }
        obs.add("evaluations", 1);
        obs.maxi("max_text_bytes", text.len() as u64);
        obs.shape(fnv1a(text.as_bytes()));
        if idx % 4999 < 2 {
            obs.sample(J::obj(vec![("text", J::s(text))]));
        }
    }

    fn gen_printable(&self, rng: &mut Rng, depth: usize) -> MV {
        if depth >= 2 || rng.chance(1, 2) {
            return match rng.below(3) {
                0 => MV::Int(*rng.pick(&[0i128, -1, 1, i128::MAX, i128::MIN, 255, -256, 1 << 64, i64::MIN as i128, i64::MAX as i128, 1 << 63, (1 << 63) + 1, -(1i128 << 63) - 1, 1 << 31, 1 << 32, u64::MAX as i128, i128::MAX - 1, i128::MIN + 1])),
                1 => MV::Int((rng.next_u128() >> rng.below(128)) as i128),
                _ => {
                    let n = *rng.pick(&[0usize, 1, 3, 4, 7, 8, 9, 12, 16, 31, 64, 100, 247, 248, 249, 256, 300, 511, 600]) + rng.below(2);
                    MV::Bits((0..n).map(|_| (rng.next_u64() & 1) as u8).collect())
                }
            };
        }
        if rng.flip() {
            MV::Vec((0..rng.below(14)).map(|_| self.gen_printable(rng, depth + 1)).collect())
        } else {
            // keys of one type (ints), see C12
            let mut m = vec![];
            for _ in 0..rng.below(13) {
                crate::mon::c12::map_insert(&mut m, MV::Int(rng.range(-50, 50) as i128), self.gen_printable(rng, depth + 1));
            }
            MV::Map(m)
        }
    }

    fn roundtrip_case(&mut self, idx: u64, obs: &mut Obs) {
        let mut rng = Rng::for_case("C16rt", self.seed, idx);
        let v = self.gen_printable(&mut rng, 0);
        let cell = crate::mon::c12::to_cell(&v, &mut None);
        let _ = bits_to_bitstr;
        // default formatting; for plain non-negative integers also hex / binary with prefix
        let mut variants: Vec<(&str, Cell)> = vec![("default", cell.clone())];
        if let MV::Int(i) = &v {
            if *i >= 0 {
                for (name, w) in [("hex", "^hex"), ("bin", "^bin"), ("hex-upcase", "^hex true fmt/upcase")] {
                    let mut xs = self.boot.clone();
                    let _ = xs.push_data(cell.clone());
                    if let Ok(Ok(())) = catch(|| xs.eval(w)) {
                        if let Some(c) = xs.get_data(0) {
                            variants.push((name, c.clone()));
                        }
                    }
                }
            }
        }
        for (name, c) in variants {
            let mut xs = self.boot.clone();
            let text = match catch(|| xs.format_cell(&c)) {
                Ok(Ok(t)) => t,
                Ok(Err(e)) => return self.fail(obs, idx, "format-error", &v.show(), show_err(&e)),
                Err((m, l)) => return self.fail(obs, idx, "panic", &v.show(), format!("format_cell: {} at {}", m, normalise_loc(&l))),
            };
            let r = catch(|| xs.eval(&text));
            let back = xs.get_data(0).cloned();
            obs.count(&format!("roundtrip:{}", name));
            match (r, back) {
                (Ok(Ok(())), Some(b)) if xs.data_depth() == 1 && b == cell && show_untagged(&b) == show_untagged(&cell) => {}
                (r, b) => {
                    return self.fail(
                        obs,
                        idx,
                        &format!("roundtrip:{}", name),
                        &truncate(&text, 300),
                        format!("printing {} gave the text above; reading it back gave {:?} / {}", truncate(&v.show(), 300), r.map(|x| x.map_err(|e| show_err(&e))), b.map(|x| truncate(&show(&x), 300)).unwrap_or_default()),
                    )
                }
            }
        }
        obs.see("roundtrip_value_kinds", v.type_name());
        obs.add("evaluations", 1);
        obs.shape(fnv1a(v.show().as_bytes()));
    }
}

fn is_strict_decimal(s: &str) -> bool {
    // [+-]? digits . digits ( [eE] [+-]? digits )?   with at least one digit on both sides of the point
    let b = s.as_bytes();
    let mut i = 0;
    if i < b.len() && (b[i] == b'+' || b[i] == b'-') {
        i += 1;
    }
    let d0 = i;
    while i < b.len() && b[i].is_ascii_digit() {
        i += 1;
    }
    if i == d0 || i >= b.len() || b[i] != b'.' {
        return false;
    }
    i += 1;
    let d1 = i;
    while i < b.len() && b[i].is_ascii_digit() {
        i += 1;
    }
    if i == d1 {
        return false;
    }
    if i == b.len() {
        return true;
    }
    if b[i] != b'e' && b[i] != b'E' {
        return false;
    }
    i += 1;
    if i < b.len() && (b[i] == b'+' || b[i] == b'-') {
        i += 1;
    }
    let d2 = i;
    while i < b.len() && b[i].is_ascii_digit() {
        i += 1;
    }
    i > d2 && i == b.len()
}

impl Monitor for C16 {
    fn run_case(&mut self, idx: u64, obs: &mut Obs) {
        if idx % 5 == 4 {
            self.roundtrip_case(idx, obs)
        } else {
            self.lex_case(idx, obs)
        }
    }
    fn boot_mut(&mut self) -> Option<&mut Xstate> {
        Some(&mut self.boot)
    }
    fn describe(&mut self, idx: u64) -> String {
        let mut rng = Rng::for_case("C16", self.seed, idx);
        format!("{:?}", self.gen_text(&mut rng))
    }
    fn finish(&mut self, obs: &mut Obs) {
        obs.maxi("float_reference_vectors", self.float_vectors.len() as u64);
    }
}
