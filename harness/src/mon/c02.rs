//! C02 — reverse stepping exactly undoes forward stepping, and replay reproduces it.
//! Oracle: the recorded history itself. D0, next, D1, ... Dn are recorded with the dump hook; a seeded walk of
//! rnext/next moves (plus a full rewind and a full replay) must show the recorded dump at every position.
use super::Monitor;
use crate::g2::gen_g2;
use crate::mon::c01::gen_case;
use crate::mon::c15::truncate;
use crate::render::*;
use crate::util::*;
use crate::Args;
use xeh::prelude::*;
use xeh::state::VerifDump;

pub struct C02 {
    seed: u64,
    boot: Xstate,
    max_steps: usize,
}

impl C02 {
    pub fn new(a: &Args) -> C02 {
        let mut boot = Xstate::boot().expect("boot");
        boot.intercept_stdout(true);
        boot.intercept_output(true).expect("intercept output");
        C02 { seed: a.seed, boot, max_steps: 400 }
    }
}

/// the machine state the statement lists, field by field (instruction meter, reverse log and stdout excluded)
pub fn machine_state(d: &VerifDump) -> Vec<(&'static str, String)> {
    let mut frames = String::new();
    for (f, r, l) in &d.frames {
        frames.push_str(&format!("(fn {} ret {} locals [{}]) ", f, r, show_vec(l)));
    }
    let mut loops = String::new();
    for (items, a, b) in &d.loops {
        loops.push_str(&format!("({} {}..{}) ", show(items), a, b));
    }
    vec![
        ("ip", format!("{}", d.ip)),
        ("data", format!("{} | {}", show_vec(&d.data_hidden), show_vec(&d.data_visible))),
        ("frames", frames),
        ("loops", loops),
        ("builder-marks", format!("{:?}", d.special)),
        ("variables", show_vec(&d.heap)),
    ]
}

fn first_diff(a: &[(&'static str, String)], b: &[(&'static str, String)]) -> Option<(&'static str, String, String)> {
    for (x, y) in a.iter().zip(b.iter()) {
        if x.1 != y.1 {
            return Some((x.0, x.1.clone(), y.1.clone()));
        }
    }
    None
}

/// name of the instruction at `ip` (native words by their dictionary name)
pub fn insn_name(xs: &Xstate, ip: usize) -> String {
    match xs.bytecode().get(ip) {
        None => "end".into(),
        Some(op) => {
            let s = xs.fmt_opcode(ip, op);
            if let Some(i) = s.find("# ") {
                let w = s[i + 2..].trim();
                let kind = s.split_whitespace().next().unwrap_or("");
                if kind == "call" {
                    "call".to_string()
                } else if w.is_empty() {
                    format!("{}:?", kind)
                } else {
                    format!("{}:{}", kind, w)
                }
            } else {
                s.split_whitespace().next().unwrap_or("").to_string()
            }
        }
    }
}

fn variant_name(step: &xeh::state::ReverseStep) -> String {
    let s = format!("{:?}", step);
    s.split(|c| c == '(' || c == ' ').next().unwrap_or("").to_string()
}

struct Hist {
    dumps: Vec<Vec<(&'static str, String)>>,
    insn: Vec<String>,
    /// (error text, dump after the failed step) when the step after the last recorded one fails
    fail: Option<(String, Vec<(&'static str, String)>)>,
    ended: bool,
}

impl C02 {
    fn gen(&self, idx: u64) -> (String, Vec<u8>, String) {
        if idx % 3 == 0 {
            let c = gen_case("C02", self.seed, idx);
            (c.rendered.src, vec![9, 8, 7, 6, 5, 4, 3, 2, 1], format!("g1:{}", c.profile))
        } else {
            let mut rng = Rng::for_case("C02g2", self.seed, idx);
            let (src, input, feats) = gen_g2(&mut rng, 50, true);
            (src, input, format!("g2:{}", feats.join(",")))
        }
    }

    fn violation(&self, obs: &mut Obs, idx: u64, src: &str, class: String, detail: String) {
        obs.violation(Violation { class: class.clone(), sig: format!("C02:{}", class), index: idx, case: src.to_string(), detail });
    }
}

impl Monitor for C02 {
    fn run_case(&mut self, idx: u64, obs: &mut Obs) {
        let (mut src, input, mut kind) = self.gen(idx);
        let mut rng = Rng::for_case("C02walk", self.seed, idx);
        // a few very long histories (tens of thousands of steps, > 2^16 log records): rewound to the start and replayed
        let long = !small() && idx % 3000 == 1499;
        if long {
            let n = 9_000 + rng.below(5_000);
            src = match rng.below(3) {
                0 => format!("0 var acc {} 0 do I 3 * acc + ! acc loop acc", n),
                1 => format!(": step-w local a a 1 + ; 0 {} 0 do step-w I drop loop", n),
                _ => format!("{} 0 do [ I ] 0 get drop 1 2 swap drop drop loop 7", n),
            };
            kind = "long-history".into();
            obs.count("long_histories");
        }
        let max_steps = if long { 200_000 } else { self.max_steps };
        let mut xs = self.boot.clone();
        xs.set_binary_input(Xbitstr::from(input)).expect("input");
        // one case in six runs under a small stack limit: a push that is refused is a failed step like any other
        let tight = !long && rng.chance(1, 6);
        let _ = xs.set_stack_limit(Some(if tight { 2 + rng.below(10) } else { 50_000 }));
        if tight {
            obs.count("cases_with_small_stack_limit");
        }
        match catch(|| xs.compile(&src)) {
            Err(_) => {
                // a crash while building belongs to C08, not to reverse stepping
                obs.skipped += 1;
                obs.count("skipped:panic-while-building(C08)");
                return;
            }
            Ok(Err(_)) => {
                obs.skipped += 1;
                obs.count("skipped:build-failure");
                return;
            }
            Ok(Ok(())) => {}
        }
        xs.set_recording_enabled(true);
        // ---- forward recording
        let mut h = Hist { dumps: vec![machine_state(&xs.verif_dump())], insn: vec![], fail: None, ended: false };
        loop {
            if !xs.is_running() {
                h.ended = true;
                break;
            }
            if h.insn.len() >= max_steps {
                break;
            }
            let name = insn_name(&xs, xs.ip());
            let before = xs.reverse_log.as_ref().map(|l| l.len()).unwrap_or(0);
            let r = catch(|| xs.next());
            let after_log: Vec<String> = xs.reverse_log.as_ref().map(|l| l[before.min(l.len())..].iter().map(variant_name).collect()).unwrap_or_default();
            let mut uniq = after_log.clone();
            uniq.sort();
            uniq.dedup();
            match r {
                Err((m, l)) => {
                    // a crash of a forward step belongs to C08; the history recorded so far is still checked
                    obs.count("forward_step_panicked(C08)");
                    obs.see("forward_panics", &format!("{} at {}", normalise_msg(&m), normalise_loc(&l)));
                    obs.skipped += 1;
                    return;
                }
                Ok(Err(e)) => {
                    obs.see("failed_steps", &format!("{}:{}", name, err_class(&e)));
                    obs.count(if after_log.is_empty() { "failed_step_without_log_entries" } else { "failed_step_with_partial_log" });
                    h.fail = Some((show_err(&e), machine_state(&xs.verif_dump())));
                    h.insn.push(name);
                    break;
                }
                Ok(Ok(())) => {
                    obs.see("insn_and_log", &format!("{} -> {}", name, uniq.join("+")));
                    for v in &uniq {
                        obs.see("reverse_step_variants", v);
                    }
                    obs.see("opcodes", name.split(':').next().unwrap_or(""));
                    h.insn.push(name);
                    h.dumps.push(machine_state(&xs.verif_dump()));
                }
            }
        }
        let n = h.dumps.len() - 1;
        obs.maxi("max_steps_recorded", n as u64);
        if n == 0 && h.fail.is_none() {
            obs.count("trivial_programs");
        }
        // ---- walk
        let mut pos = n; // index into dumps; `failed` = we are in the state after the failing step
        let mut failed = h.fail.is_some();
        let total_moves = if long { 300 } else { 3 * n + 6 };
        let mut plan: Vec<bool> = Vec::with_capacity(total_moves + 2 * n + 4); // true = forward
        for _ in 0..total_moves {
            // biased walk so that it drifts back and forth over the whole history
            plan.push(rng.chance(45, 100));
        }
        // full rewind (one extra at the start to check that rnext at position 0 is a no-op), then full replay
        for _ in 0..n + 2 {
            plan.push(false);
        }
        for _ in 0..n + 1 {
            plan.push(true);
        }
        let mut moves = 0u64;
        let mut max_rewind = 0usize;
        for (mi, fwd) in plan.iter().enumerate() {
            let at = pos;
            if *fwd {
                if pos == n && !failed && !h.ended && h.fail.is_none() {
                    // history was cut at max_steps: do not run into unrecorded territory
                    continue;
                }
                if failed {
                    // stepping on after a failure is not a replay from a rewound point (the failed instruction may
                    // consume more operands each time): outside the statement
                    continue;
                }
                let r = catch(|| xs.next());
                moves += 1;
                let got = machine_state(&xs.verif_dump());
                match r {
                    Err((m, l)) => return self.violation(obs, idx, &src, "panic:replay".into(), format!("panic {} at {} replaying step {}", m, normalise_loc(&l), at)),
                    Ok(res) => {
                        let (want, what): (&Vec<(&'static str, String)>, &str) = if pos < n && !failed {
                            pos += 1;
                            (&h.dumps[pos], "replayed step")
                        } else if let Some((etext, fd)) = &h.fail {
                            // re-executing the failing instruction must fail the same way
                            match &res {
                                Err(e) if &show_err(e) == etext => {}
                                other => {
                                    return self.violation(obs, idx, &src, format!("replay:result:{}", h.insn.last().cloned().unwrap_or_default()), format!("step {} failed with {} originally, now {:?}", n, etext, other.as_ref().err().map(show_err)))
                                }
                            }
                            failed = true;
                            (fd, "re-executed failing step")
                        } else {
                            (&h.dumps[n], "step after the end")
                        };
                        if what == "replayed step" {
                            if let Err(e) = &res {
                                return self.violation(obs, idx, &src, format!("replay:error:{}", h.insn[at]), format!("replaying step {} ({}) failed with {}", at, h.insn[at], show_err(e)));
                            }
                        }
                        if let Some((field, g, w)) = first_diff(&got, want) {
                            let ins = h.insn.get(at).cloned().unwrap_or_else(|| "end".into());
                            return self.violation(
                                obs,
                                idx,
                                &src,
                                format!("replay:{}:{}", field, ins),
                                format!("move {} ({}): after stepping forward from position {} ({}) the {} differ\n got: {}\nwant: {}", mi, what, at, ins, field, truncate(&g, 600), truncate(&w, 600)),
                            );
                        }
                    }
                }
            } else {
                let r = catch(|| xs.rnext());
                moves += 1;
                let got = machine_state(&xs.verif_dump());
                match r {
                    Err((m, l)) => return self.violation(obs, idx, &src, "panic:rnext".into(), format!("panic {} at {} reversing from position {}", m, normalise_loc(&l), at)),
                    Ok(Err(e)) => {
                        let ins = if failed { h.insn.last().cloned().unwrap_or_default() } else { h.insn.get(at.wrapping_sub(1)).cloned().unwrap_or_else(|| "start".into()) };
                        return self.violation(obs, idx, &src, format!("rnext:error:{}", ins), format!("rnext from position {} failed with {}", at, show_err(&e)));
                    }
                    Ok(Ok(())) => {}
                }
                if failed {
                    // a failed step is not a completed step: undoing it gives the state before it; if it logged nothing
                    // the first rnext already undoes the previous instruction (both readings are accepted)
                    failed = false;
                    if first_diff(&got, &h.dumps[n]).is_none() {
                        pos = n;
                        obs.count("rewinds_of_failed_step:to-state-before");
                    } else if n > 0 && first_diff(&got, &h.dumps[n - 1]).is_none() {
                        pos = n - 1;
                        obs.count("rewinds_of_failed_step:one-further");
                    } else {
                        let (field, g, w) = first_diff(&got, &h.dumps[n]).unwrap();
                        let ins = h.insn.last().cloned().unwrap_or_default();
                        return self.violation(obs, idx, &src, format!("rnext-after-failure:{}:{}", field, ins), format!("one rnext after the failed step {} ({}) restored neither the state before it nor the one before that; {} differ\n got: {}\nwant: {}", n, ins, field, truncate(&g, 600), truncate(&w, 600)));
                    }
                    continue;
                }
                let want_pos = pos.saturating_sub(1);
                if let Some((field, g, w)) = first_diff(&got, &h.dumps[want_pos]) {
                    let ins = if pos == 0 { "start".to_string() } else { h.insn[pos - 1].clone() };
                    return self.violation(
                        obs,
                        idx,
                        &src,
                        format!("rnext:{}:{}", field, ins),
                        format!("move {}: after rnext from position {} (undoing {}) the {} differ from what was recorded at position {}\n got: {}\nwant: {}", mi, at, ins, field, want_pos, truncate(&g, 600), truncate(&w, 600)),
                    );
                }
                if pos == 0 {
                    obs.count("rnext_at_start_is_noop");
                }
                pos = want_pos;
                max_rewind = max_rewind.max(n - pos);
            }
        }
        obs.add("moves_checked", moves);
        obs.add("evaluations", 1);
        obs.maxi("max_rewind_depth", max_rewind as u64);
        if long {
            obs.maxi("max_log_records_rewound", xs.reverse_log.as_ref().map(|l| l.len()).unwrap_or(0) as u64);
            obs.count("long_histories_rewound_and_replayed");
        }
        if h.fail.is_some() {
            obs.count("histories_ending_in_failed_step");
        } else if h.ended {
            obs.count("histories_run_to_end");
        } else {
            obs.count("histories_cut_at_step_cap");
        }
        for f in kind.split(|c| c == ':' || c == ',') {
            if !f.is_empty() {
                obs.see("features", f);
            }
        }
        // distinct = distinct instruction traces (names only)
        if n >= 5 {
            obs.shape(fnv1a(h.insn.join(" ").as_bytes()));
        }
        if idx % 1201 < 2 {
            obs.sample(J::obj(vec![("kind", J::s(kind)), ("steps", J::Int(n as i128)), ("source", J::s(src))]));
        }
    }
    fn describe(&mut self, idx: u64) -> String {
        let (src, input, kind) = self.gen(idx);
        format!("[{}] input={:02x?}\n{}", kind, input, src)
    }
}
