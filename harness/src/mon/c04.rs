//! C04 — bit-string operations depend only on the bit sequence.
//! Oracle: a plain Vec<u8> of 0/1 per value; every operation is mirrored on it.
use super::Monitor;
use crate::render::bits_of;
use crate::util::*;
use crate::Args;
use xeh::bitstr::{Bitstr, BitvecBuilder};

static S0: [u8; 0] = [];
static S1: [u8; 1] = [0xA5];
static S2: [u8; 5] = [0xFF, 0x00, 0x12, 0x80, 0x01];
static S3: [u8; 9] = [1, 2, 3, 4, 5, 6, 7, 8, 9];

struct Ent {
    bs: Bitstr,
    model: Vec<u8>,
}

pub struct C04 {
    seed: u64,
    max_ops: usize,
    max_bits: usize,
    lang: bool,
}

impl C04 {
    pub fn new(a: &Args) -> C04 {
        C04 { seed: a.seed, max_ops: if small() { 6 } else { 80 }, max_bits: if small() { 80 } else { 600 }, lang: a.mode == "lang" }
    }
}

fn storage_class(b: &Bitstr) -> String {
    let (cnt, buflen, borrowed, range) = b.verif_storage();
    let tail_slack = buflen > xeh::bitstr::upper_bound_index(range.end);
    let head_slack = range.start >= 8;
    format!(
        "{}-{}-{}{}-s{}e{}",
        if cnt == 1 { "unique" } else { "shared" },
        if borrowed { "borrowed" } else { "owned" },
        if head_slack { "H" } else { "h" },
        if tail_slack { "T" } else { "t" },
        range.start % 8,
        range.end % 8
    )
}

fn model_iter8(m: &[u8]) -> Vec<(u8, u32)> {
    m.chunks(8)
        .map(|c| {
            let mut v = 0u8;
            for b in c {
                v = (v << 1) | b;
            }
            (v, c.len() as u32)
        })
        .collect()
}

fn model_hex(m: &[u8]) -> String {
    let mut s = String::new();
    for (v, n) in model_iter8(m) {
        if n > 4 {
            s.push(char::from_digit((v >> 4) as u32, 16).unwrap());
        }
        s.push(char::from_digit((v & 0xf) as u32, 16).unwrap());
    }
    s
}

fn model_str(m: &[u8]) -> String {
    m.iter().map(|b| if *b == 1 { '1' } else { '0' }).collect()
}

/// compare a real value with its model through every observer; returns the first difference
fn check_value(b: &Bitstr, m: &[u8]) -> Option<String> {
    if b.len() != m.len() {
        return Some(format!("len {} != model {}", b.len(), m.len()));
    }
    if b.end() < b.start() {
        return Some(format!("range end {} < start {}", b.end(), b.start()));
    }
    let got: Vec<u8> = b.bits().collect();
    if got != m {
        return Some(format!("bits {} != model {}", model_str(&got), model_str(m)));
    }
    let it8: Vec<(u8, u32)> = b.iter8().collect();
    if it8 != model_iter8(m) {
        return Some(format!("iter8 {:?} != model {:?}", it8, model_iter8(m)));
    }
    let hx = b.to_hex_string();
    if hx != model_hex(m) {
        return Some(format!("to_hex_string {} != model {}", hx, model_hex(m)));
    }
    let padded: Vec<u8> = model_iter8(m).iter().map(|x| x.0).collect();
    if b.to_bytes_with_padding() != padded {
        return Some(format!("to_bytes_with_padding {:?} != model {:?}", b.to_bytes_with_padding(), padded));
    }
    let bytes_expected = if m.len() % 8 == 0 { Some(padded.clone()) } else { None };
    if b.to_bytes() != bytes_expected {
        return Some(format!("to_bytes {:?} != model {:?}", b.to_bytes(), bytes_expected));
    }
    let bytestr = b.bytestr().map(|c| c.into_owned());
    if bytestr != bytes_expected {
        return Some(format!("bytestr {:?} != model {:?}", bytestr, bytes_expected));
    }
    match b.slice() {
        Some(s) => {
            if Some(s.to_vec()) != bytes_expected {
                return Some(format!("slice {:?} != model {:?}", s, bytes_expected));
            }
        }
        None => {
            if b.start() % 8 == 0 && m.len() % 8 == 0 {
                return Some("slice None for a byte-aligned value".to_string());
            }
        }
    }
    if b.is_bytestr() != (m.len() % 8 == 0) {
        return Some("is_bytestr wrong".to_string());
    }
    None
}

pub fn fresh_from_model(m: &[u8], rng: &mut Rng) -> Bitstr {
    // independently built equal value at a random alignment: pad with random bits, then slice
    let lead = rng.below(12);
    let trail = rng.below(12);
    let mut tmp = BitvecBuilder::default();
    for _ in 0..lead {
        tmp.append_bit(rng.flip() as u8);
    }
    for b in m {
        tmp.append_bit(*b);
    }
    for _ in 0..trail {
        tmp.append_bit(rng.flip() as u8);
    }
    let whole = tmp.finish();
    whole.substr(lead, lead + m.len()).expect("harness: substr of own value")
}

struct Run<'a> {
    rng: Rng,
    pool: Vec<Ent>,
    log: Vec<String>,
    obs: &'a mut Obs,
    idx: u64,
    failed: bool,
    max_bits: usize,
}

impl<'a> Run<'a> {
    fn fail(&mut self, op: &str, class: &str, detail: String) {
        if self.failed {
            return;
        }
        self.failed = true;
        let case = self.log.join("\n");
        self.obs.violation(Violation {
            class: format!("{}:{}", op, class),
            sig: format!("C04:{}:{}", op, class),
            index: self.idx,
            case,
            detail,
        });
    }

    fn new_value(&mut self) {
        let kind = self.rng.below(5);
        let (bs, model, what) = match kind {
            0 => {
                let n = self.rng.below(24);
                let bytes = self.rng.bytes(n);
                let model: Vec<u8> = bytes.iter().flat_map(|b| (0..8).rev().map(move |i| (b >> i) & 1)).collect();
                (Bitstr::from(bytes.clone()), model, format!("from_vec {:02x?}", bytes))
            }
            1 => {
                let n = self.rng.below(40);
                let mut s = String::new();
                let mut model = Vec::new();
                for _ in 0..n {
                    let d = self.rng.below(16) as u32;
                    let c = char::from_digit(d, 16).unwrap();
                    s.push(if self.rng.flip() { c.to_ascii_uppercase() } else { c });
                    if self.rng.chance(1, 5) {
                        s.push(' ');
                    }
                    for i in (0..4).rev() {
                        model.push(((d >> i) & 1) as u8);
                    }
                }
                match Bitstr::from_hex_str(&s) {
                    Ok(b) => (b, model, format!("from_hex_str {:?}", s)),
                    Err(p) => {
                        self.fail("from_hex_str", "rejected-valid", format!("{:?} rejected at {}", s, p));
                        return;
                    }
                }
            }
            2 => {
                let n = self.rng.below(70);
                let mut s = String::new();
                let mut model = Vec::new();
                for _ in 0..n {
                    let b = self.rng.flip() as u8;
                    s.push(if b == 1 { '1' } else { '0' });
                    if self.rng.chance(1, 7) {
                        s.push('\n');
                    }
                    model.push(b);
                }
                match BitvecBuilder::from_bin_str(&s) {
                    Ok(b) => (b, model, format!("from_bin_str {:?}", s)),
                    Err(p) => {
                        self.fail("from_bin_str", "rejected-valid", format!("{:?} rejected at {}", s, p));
                        return;
                    }
                }
            }
            3 => {
                let which = self.rng.below(4);
                let st: &'static [u8] = match which {
                    0 => &S0,
                    1 => &S1,
                    2 => &S2,
                    _ => &S3,
                };
                let model: Vec<u8> = st.iter().flat_map(|b| (0..8).rev().map(move |i| (b >> i) & 1)).collect();
                (Bitstr::from(st), model, format!("from_static S{}", which))
            }
            _ => {
                // bit by bit with the builder
                let n = self.rng.below(50);
                let mut tmp = BitvecBuilder::default();
                let mut model = Vec::new();
                for _ in 0..n {
                    let b = self.rng.flip() as u8;
                    tmp.append_bit(b);
                    model.push(b);
                }
                { let d = format!("builder {}", model_str(&model)); (tmp.finish(), model, d) }
            }
        };
        self.log.push(format!("v{} = {}", self.pool.len(), what));
        self.obs.count("op:new");
        self.push_checked("new", bs, model);
    }

    fn push_checked(&mut self, op: &str, bs: Bitstr, model: Vec<u8>) {
        let sc = storage_class(&bs);
        // ownership class without the alignment digits, alignments as a separate small table
        let coarse = sc.rsplitn(2, '-').nth(1).unwrap_or("").to_string();
        self.obs.see("storage_classes", &coarse);
        self.obs.see("alignments", sc.rsplitn(2, '-').next().unwrap_or(""));
        self.obs.count(&format!("storage:{}", coarse));
        if let Some(d) = check_value(&bs, &model) {
            let cls = storage_class(&bs);
            self.fail(op, "result", format!("result differs ({}): {}", cls, d));
            return;
        }
        // equality both directions against an independently built equal value and a different one
        let twin = fresh_from_model(&model, &mut self.rng);
        if !bs.eq_with(&twin) || !twin.eq_with(&bs) || bs != twin {
            self.fail(op, "eq", format!("value {} not eq_with an equal value built independently", bits_of(&bs)));
            return;
        }
        if !model.is_empty() {
            let mut other = model.clone();
            let k = self.rng.below(other.len());
            other[k] ^= 1;
            let diff = fresh_from_model(&other, &mut self.rng);
            if bs.eq_with(&diff) || diff.eq_with(&bs) {
                self.fail(op, "eq", format!("value {} eq_with a different value {}", bits_of(&bs), model_str(&other)));
                return;
            }
        }
        if !model.is_empty() && model.len() <= 300 {
            // two views of ONE buffer, same length, different positions: equal iff their bits are equal
            let lead = self.rng.below(9);
            let mut other = model.clone();
            let same = self.rng.flip();
            if !same {
                let k = self.rng.below(other.len());
                other[k] ^= 1;
            }
            let mut b = BitvecBuilder::default();
            for _ in 0..lead {
                b.append_bit(self.rng.flip() as u8);
            }
            for x in model.iter().chain(other.iter()) {
                b.append_bit(*x);
            }
            let parent = b.finish();
            let l = model.len();
            let v1 = parent.substr(lead, lead + l).expect("harness substr");
            let v2 = parent.substr(lead + l, lead + 2 * l).expect("harness substr");
            let keep_parent = self.rng.flip();
            if !keep_parent {
                drop(parent);
            }
            let e1 = v1 == v2;
            let e2 = v1.eq_with(&v2) && v2.eq_with(&v1);
            let e3 = xeh::prelude::Cell::Bitstr(v1.clone()) == xeh::prelude::Cell::Bitstr(v2.clone());
            if e1 != same || e2 != same || e3 != same {
                self.fail(op, "eq-views-of-one-buffer", format!("views at {} and {} of one buffer hold {} bits; == says {}, eq_with {}, cell equality {}", lead, lead + l, if same { "the same" } else { "different" }, e1, e2, e3));
                return;
            }
            self.obs.count("eq_checks_between_views_of_one_buffer");
        }
        self.obs.count("eq_checks");
        if model.len() <= self.max_bits && self.pool.len() < 10 {
            self.pool.push(Ent { bs, model });
        }
    }

    fn recheck_pool(&mut self, op: &str) {
        for i in 0..self.pool.len() {
            self.obs.count("operand_rechecks");
            if let Some(d) = check_value(&self.pool[i].bs, &self.pool[i].model) {
                let cls = storage_class(&self.pool[i].bs);
                self.fail(op, "operand-modified", format!("live value v{} changed ({}): {}", i, cls, d));
                return;
            }
        }
    }

    fn hostile_len(&mut self, len: usize, start: usize) -> usize {
        match self.rng.below(12) {
            0 => 0,
            1 => len,
            2 => len + 1,
            3 => usize::MAX,
            4 => usize::MAX - start,
            5 => (usize::MAX - start).wrapping_add(1),
            6 => usize::MAX / 2 + 1,
            7 => len + 8,
            _ => self.rng.below(len + 1),
        }
    }

    fn step(&mut self) {
        if self.pool.is_empty() || (self.pool.len() < 3 && self.rng.chance(1, 2)) || self.rng.chance(1, 12) {
            self.new_value();
            return;
        }
        let i = self.rng.below(self.pool.len());
        let len = self.pool[i].model.len();
        let start = self.pool[i].bs.start();
        let cls = storage_class(&self.pool[i].bs);
        {
            // ownership situation of the operand at the moment it is used
            let coarse = cls.rsplitn(2, '-').nth(1).unwrap_or("").to_string();
            self.obs.see("storage_classes", &coarse);
        }
        let op = self.rng.below(14);
        match op {
            0 => {
                // read: mutates the cursor of v_i, returns the prefix
                let n = self.hostile_len(len, start);
                self.log.push(format!("v{} = v{}.read({})   [{}]", self.pool.len(), i, n, cls));
                self.obs.count("op:read");
                let r = catch(|| {
                    let mut b = self.pool[i].bs.clone();
                    let r = b.read(n);
                    (b, r)
                });
                match r {
                    Err((m, l)) => self.fail("read", "panic", format!("panic {} at {}", m, l)),
                    Ok((after, res)) => {
                        if n <= len {
                            match res {
                                None => self.fail("read", "none", format!("read({}) of {} bits returned None", n, len)),
                                Some(x) => {
                                    let m = self.pool[i].model.clone();
                                    self.pool[i].bs = after;
                                    self.pool[i].model = m[n..].to_vec();
                                    self.push_checked("read", x, m[..n].to_vec());
                                }
                            }
                        } else {
                            self.obs.count("hostile_args");
                            if let Some(x) = res {
                                self.fail(
                                    "read",
                                    "some-out-of-range",
                                    format!("read({}) of {} bits returned a value of range {}..{}", n, len, x.start(), x.end()),
                                );
                            } else {
                                self.pool[i].bs = after;
                            }
                        }
                    }
                }
            }
            1 => {
                let n = self.hostile_len(len, start);
                self.log.push(format!("v{} = v{}.peek({})   [{}]", self.pool.len(), i, n, cls));
                self.obs.count("op:peek");
                let r = catch(|| self.pool[i].bs.peek(n));
                match r {
                    Err((m, l)) => self.fail("peek", "panic", format!("panic {} at {}", m, l)),
                    Ok(res) => {
                        if n <= len {
                            match res {
                                None => self.fail("peek", "none", format!("peek({}) of {} bits returned None", n, len)),
                                Some(x) => {
                                    let m = self.pool[i].model[..n].to_vec();
                                    self.push_checked("peek", x, m);
                                }
                            }
                        } else {
                            self.obs.count("hostile_args");
                            if res.is_some() {
                                self.fail("peek", "some-out-of-range", format!("peek({}) of {} bits returned a value", n, len));
                            }
                        }
                    }
                }
            }
            2 => {
                // seek: absolute position
                let k = self.hostile_len(len, start);
                let pos = start.wrapping_add(k);
                let pos = if self.rng.chance(1, 10) && start > 0 { start - 1 } else { pos };
                self.log.push(format!("v{} = v{}.seek({})   [{} start={}]", self.pool.len(), i, pos, cls, start));
                self.obs.count("op:seek");
                let r = catch(|| self.pool[i].bs.seek(pos));
                match r {
                    Err((m, l)) => self.fail("seek", "panic", format!("panic {} at {}", m, l)),
                    Ok(res) => {
                        let valid = pos >= start && pos <= start + len;
                        match (valid, res) {
                            (true, Some(x)) => {
                                let m = self.pool[i].model[pos - start..].to_vec();
                                self.push_checked("seek", x, m);
                            }
                            (true, None) => self.fail("seek", "none", format!("seek({}) inside {}..{} returned None", pos, start, start + len)),
                            (false, Some(_)) => self.fail("seek", "some-out-of-range", format!("seek({}) outside {}..{} returned a value", pos, start, start + len)),
                            (false, None) => self.obs.count("hostile_args"),
                        }
                    }
                }
            }
            3 => {
                let a = self.rng.below(len + 2);
                let b = if self.rng.chance(1, 8) { self.hostile_len(len, start) } else { a + self.rng.below(len + 2 - a.min(len + 1)) };
                let (mut pa, pb) = (start.wrapping_add(a), start.wrapping_add(b));
                if start > 0 && self.rng.chance(1, 6) {
                    // a range that begins in front of the value (inside its buffer) and ends inside or at its start
                    pa = self.rng.below(start);
                    self.obs.count("substr_starting_before_value");
                }
                self.log.push(format!("v{} = v{}.substr({}, {})   [{} start={}]", self.pool.len(), i, pa, pb, cls, start));
                self.obs.count("op:substr");
                let r = catch(|| self.pool[i].bs.substr(pa, pb));
                match r {
                    Err((m, l)) => self.fail("substr", "panic", format!("panic {} at {}", m, l)),
                    Ok(res) => {
                        let valid = pa <= pb && pa >= start && pb <= start + len;
                        match (valid, res) {
                            (true, Some(x)) => {
                                let m = self.pool[i].model[pa - start..pb - start].to_vec();
                                self.push_checked("substr", x, m);
                            }
                            (true, None) => self.fail("substr", "none", "valid substr returned None".into()),
                            (false, Some(_)) => self.fail("substr", "some-out-of-range", "invalid substr returned a value".into()),
                            (false, None) => self.obs.count("hostile_args"),
                        }
                    }
                }
            }
            4 => {
                let k = self.hostile_len(len, start);
                self.log.push(format!("(v{}, v{}) = v{}.split_at({})   [{}]", self.pool.len(), self.pool.len() + 1, i, k, cls));
                self.obs.count("op:split_at");
                let r = catch(|| self.pool[i].bs.split_at(k));
                match r {
                    Err((m, l)) => self.fail("split_at", "panic", format!("panic {} at {}", m, l)),
                    Ok(res) => match (k <= len, res) {
                        (true, Some((l, r))) => {
                            let m = self.pool[i].model.clone();
                            self.push_checked("split_at", l, m[..k].to_vec());
                            if !self.failed {
                                self.push_checked("split_at", r, m[k..].to_vec());
                            }
                        }
                        (true, None) => self.fail("split_at", "none", "valid split_at returned None".into()),
                        (false, Some(_)) => self.fail("split_at", "some-out-of-range", format!("split_at({}) of {} bits returned a value", k, len)),
                        (false, None) => self.obs.count("hostile_args"),
                    },
                }
            }
            5 | 6 | 7 => {
                // append: head is moved out of the pool (may be the unique owner) or cloned (shared)
                let j = self.rng.below(self.pool.len());
                let move_head = self.rng.flip() && j != i;
                let tail_model = self.pool[j].model.clone();
                let tail = self.pool[j].bs.clone();
                let tail_cls = storage_class(&self.pool[j].bs);
                let (head, head_model) = if move_head {
                    let e = self.pool.remove(i);
                    (e.bs, e.model)
                } else {
                    (self.pool[i].bs.clone(), self.pool[i].model.clone())
                };
                // storage class as seen by append itself
                let tail_ref_cls = if move_head { storage_class(&head) } else { cls.clone() };
                {
                    let coarse = tail_ref_cls.rsplitn(2, '-').nth(1).unwrap_or("").to_string();
                    self.obs.see("storage_classes", &coarse);
                }
                let head_is_unique = head.verif_storage().0 == 1;
                self.log.push(format!(
                    "v? = {}v{}.append(v{})   [head {} tail {}]",
                    if move_head { "move " } else { "clone " },
                    i,
                    j,
                    tail_ref_cls,
                    tail_cls
                ));
                self.obs.count("op:append");
                if head_is_unique {
                    self.obs.count("append_unique_head");
                    let (_, buflen, _, range) = head.verif_storage();
                    if buflen > xeh::bitstr::upper_bound_index(range.end) {
                        self.obs.count("append_unique_head_with_tail_slack");
                    }
                }
                if head.is_u8_slice() && tail.is_u8_slice() {
                    self.obs.count("append_fast_path");
                } else {
                    self.obs.count("append_slow_path");
                }
                let r = catch(move || head.append(&tail));
                match r {
                    Err((m, l)) => self.fail("append", "panic", format!("panic {} at {}", m, l)),
                    Ok(x) => {
                        let mut m = head_model;
                        m.extend_from_slice(&tail_model);
                        self.push_checked("append", x, m);
                    }
                }
            }
            8 => {
                let j = self.rng.below(self.pool.len());
                let k = self.hostile_len(len, start);
                let s = self.pool[j].bs.clone();
                let s_model = self.pool[j].model.clone();
                let move_it = self.rng.flip() && j != i;
                let (target, tm) = if move_it {
                    let e = self.pool.remove(i);
                    (e.bs, e.model)
                } else {
                    (self.pool[i].bs.clone(), self.pool[i].model.clone())
                };
                self.log.push(format!("v? = {}v{}.insert({}, v{})   [{}]", if move_it { "move " } else { "clone " }, i, k, j, cls));
                self.obs.count("op:insert");
                let r = catch(move || target.insert(k, &s));
                match r {
                    Err((m, l)) => self.fail("insert", "panic", format!("panic {} at {}", m, l)),
                    Ok(res) => match (k <= tm.len(), res) {
                        (true, Some(x)) => {
                            let mut m = tm[..k].to_vec();
                            m.extend_from_slice(&s_model);
                            m.extend_from_slice(&tm[k..]);
                            self.push_checked("insert", x, m);
                        }
                        (true, None) => self.fail("insert", "none", "valid insert returned None".into()),
                        (false, Some(_)) => self.fail("insert", "some-out-of-range", "out-of-range insert returned a value".into()),
                        (false, None) => self.obs.count("hostile_args"),
                    },
                }
            }
            9 => {
                let move_it = self.rng.flip();
                let (target, tm) = if move_it {
                    let e = self.pool.remove(i);
                    (e.bs, e.model)
                } else {
                    (self.pool[i].bs.clone(), self.pool[i].model.clone())
                };
                self.log.push(format!("v? = {}v{}.invert()   [{}]", if move_it { "move " } else { "clone " }, i, cls));
                self.obs.count("op:invert");
                if target.verif_storage().0 == 1 {
                    self.obs.count("invert_unique");
                }
                let r = catch(move || target.invert());
                match r {
                    Err((m, l)) => self.fail("invert", "panic", format!("panic {} at {}", m, l)),
                    Ok(x) => {
                        let m: Vec<u8> = tm.iter().map(|b| b ^ 1).collect();
                        self.push_checked("invert", x, m);
                    }
                }
            }
            10 => {
                let move_it = self.rng.flip();
                let (target, tm) = if move_it {
                    let e = self.pool.remove(i);
                    (e.bs, e.model)
                } else {
                    (self.pool[i].bs.clone(), self.pool[i].model.clone())
                };
                self.log.push(format!("v? = {}v{}.detach()   [{}]", if move_it { "move " } else { "clone " }, i, cls));
                self.obs.count("op:detach");
                let r = catch(move || target.detach());
                match r {
                    Err((m, l)) => self.fail("detach", "panic", format!("panic {} at {}", m, l)),
                    Ok(x) => self.push_checked("detach", x, tm),
                }
            }
            11 => {
                self.log.push(format!("v{} = v{}.clone()", self.pool.len(), i));
                self.obs.count("op:clone");
                let b = self.pool[i].bs.clone();
                let m = self.pool[i].model.clone();
                self.push_checked("clone", b, m);
            }
            _ => {
                // drop: removing values turns slices into unique owners of a longer buffer
                let n = 1 + self.rng.below(2);
                for _ in 0..n {
                    if self.pool.len() > 1 {
                        let k = self.rng.below(self.pool.len());
                        self.log.push(format!("drop v{}", k));
                        self.obs.count("op:drop");
                        self.pool.remove(k);
                    }
                }
            }
        }
        if !self.failed {
            self.recheck_pool("after-op");
        }
    }
}

impl C04 {
    fn run(&mut self, idx: u64, obs: &mut Obs) -> Vec<String> {
        let rng = Rng::for_case("C04", self.seed, idx);
        let mut run = Run { rng, pool: Vec::new(), log: Vec::new(), obs, idx, failed: false, max_bits: self.max_bits };
        let nops = if small() { 4 } else { 10 } + run.rng.below(self.max_ops);
        for _ in 0..nops {
            run.step();
            if run.failed {
                break;
            }
        }
        let mut h = 0u64;
        for l in &run.log {
            // shape: sequence of operation kinds with their storage classes
            let key: String = l.split_whitespace().filter(|w| !w.chars().any(|c| c.is_ascii_digit()) || w.starts_with('[')).collect();
            h = h.rotate_left(5) ^ fnv1a(key.as_bytes());
        }
        run.obs.shape(h);
        run.obs.add("ops", run.log.len() as u64);
        run.log
    }
}

impl Monitor for C04 {
    fn run_case(&mut self, idx: u64, obs: &mut Obs) {
        if self.lang {
            crate::mon::c04::lang::run_case(self.seed, idx, obs);
            return;
        }
        let log = self.run(idx, obs);
        if idx < 3 {
            obs.sample(J::obj(vec![("index", J::Int(idx as i128)), ("ops", J::Arr(log.iter().take(25).map(|l| J::s(l.clone())).collect()))]));
        }
    }
    fn describe(&mut self, idx: u64) -> String {
        let mut tmp = Obs::default();
        if self.lang {
            return lang::describe(self.seed, idx);
        }
        self.run(idx, &mut tmp).join("\n")
    }
}

/// language-level shard: the bit-string words driven through eval, compared with the same model
pub mod lang {
    use super::*;
    use xeh::prelude::*;

    fn lit(m: &[u8]) -> String {
        // bit-string literal, bit by bit
        let mut s = String::from("|");
        for b in m {
            s.push(if *b == 1 { 'x' } else { '.' });
        }
        s.push('|');
        s
    }

    fn gen(seed: u64, idx: u64) -> (String, Vec<u8>) {
        let mut rng = Rng::for_case("C04lang", seed, idx);
        // build an expression tree over bit-string words, evaluate on the model
        fn expr(rng: &mut Rng, depth: usize, src: &mut String) -> Vec<u8> {
            let k = if depth == 0 { 0 } else { rng.below(8) };
            match k {
                0 => {
                    let n = rng.below(40);
                    let m: Vec<u8> = (0..n).map(|_| rng.flip() as u8).collect();
                    src.push_str(&lit(&m));
                    src.push(' ');
                    m
                }
                1 => {
                    // tail head bitstr-append  => head ++ tail
                    let tail = expr(rng, depth - 1, src);
                    let head = expr(rng, depth - 1, src);
                    src.push_str("bitstr-append ");
                    let mut m = head;
                    m.extend_from_slice(&tail);
                    m
                }
                2 => {
                    let a = expr(rng, depth - 1, src);
                    src.push_str("bitstr-not ");
                    a.iter().map(|b| b ^ 1).collect()
                }
                3 | 4 | 5 => {
                    let a = expr(rng, depth - 1, src);
                    let mut b = expr(rng, depth - 1, src);
                    if b.is_empty() {
                        // zip with an empty cycle yields nothing
                        b = vec![];
                    }
                    let (w, f): (&str, fn(u8, u8) -> u8) = match k {
                        3 => ("bitstr-and ", |x, y| x & y),
                        4 => ("bitstr-or ", |x, y| x | y),
                        _ => ("bitstr-xor ", |x, y| x ^ y),
                    };
                    src.push_str(w);
                    if b.is_empty() {
                        vec![]
                    } else {
                        a.iter().enumerate().map(|(i, x)| f(*x, b[i % b.len()])).collect()
                    }
                }
                6 => {
                    // [ bytes / strings / bitstrs ] >bitstr
                    src.push_str("[ ");
                    let mut m = Vec::new();
                    for _ in 0..rng.below(5) {
                        match rng.below(3) {
                            0 => {
                                let v = rng.below(256) as u8;
                                src.push_str(&format!("{} ", v));
                                m.extend((0..8).rev().map(|i| (v >> i) & 1));
                            }
                            1 => {
                                let s: String = (0..rng.below(4)).map(|_| (b'a' + rng.below(26) as u8) as char).collect();
                                src.push_str(&format!("\"{}\" ", s));
                                for c in s.bytes() {
                                    m.extend((0..8).rev().map(|i| (c >> i) & 1));
                                }
                            }
                            _ => {
                                let sub = expr(rng, depth - 1, src);
                                m.extend_from_slice(&sub);
                            }
                        }
                    }
                    src.push_str("] >bitstr ");
                    m
                }
                _ => {
                    // hex round trip of a nibble-multiple value
                    let n = rng.below(10) * 4;
                    let m: Vec<u8> = (0..n).map(|_| rng.flip() as u8).collect();
                    src.push_str(&format!("\"{}\" hex>bitstr ", super::model_hex(&m)));
                    m
                }
            }
        }
        let mut src = String::new();
        let depth = 1 + rng.below(4);
        let m = expr(&mut rng, depth, &mut src);
        (src, m)
    }

    pub fn describe(seed: u64, idx: u64) -> String {
        let (src, m) = gen(seed, idx);
        format!("{}\nexpected bits {}", src, super::model_str(&m))
    }

    pub fn run_case(seed: u64, idx: u64, obs: &mut Obs) {
        let (src, m) = gen(seed, idx);
        obs.shape(fnv1a(src.split_whitespace().filter(|w| w.starts_with("bitstr") || w.contains('>')).collect::<Vec<_>>().join(" ").as_bytes()));
        let mut xs = Xstate::boot().expect("boot");
        let r = catch(|| xs.eval(&src));
        let fail = |obs: &mut Obs, class: &str, detail: String| {
            obs.violation(Violation {
                class: format!("lang:{}", class),
                sig: format!("C04:lang:{}", class),
                index: idx,
                case: format!("{}\nexpected bits {}", src, super::model_str(&m)),
                detail,
            })
        };
        match r {
            Err((msg, loc)) => fail(obs, "panic", format!("panic {} at {}", msg, loc)),
            Ok(Err(e)) => fail(obs, "error", format!("unexpected error {:?}", e)),
            Ok(Ok(())) => {
                if xs.data_depth() != 1 {
                    fail(obs, "depth", format!("depth {}", xs.data_depth()));
                    return;
                }
                match xs.get_data(0).and_then(|c| c.bitstr().ok()) {
                    Some(b) => {
                        if let Some(d) = super::check_value(b, &m) {
                            fail(obs, "result", d);
                        } else {
                            obs.count("lang_results_checked");
                            for w in src.split_whitespace() {
                                if w.starts_with("bitstr") || w.contains(">b") {
                                    obs.see("lang_words", w);
                                }
                            }
                        }
                    }
                    None => fail(obs, "type", "result is not a bit-string".into()),
                }
            }
        }
        if idx < 2 {
            obs.sample(J::obj(vec![("index", J::Int(idx as i128)), ("source", J::s(src.clone()))]));
        }
    }
}
