//! C12 — maps, vectors and strings obey collection laws under the language's equality.
//! Oracle: association list keyed by structural equality (maps), plain sequences (vectors, strings). Every word is
//! run through eval on cells pushed from the model; every live collection is re-checked (value semantics).
use super::Monitor;
use crate::mon::c15::truncate;
use crate::render::*;
use crate::util::*;
use crate::Args;
use xeh::prelude::*;

#[derive(Clone, Debug)]
pub enum MV {
    Nil,
    Flag(bool),
    Int(i128),
    Real(f64),
    Str(String),
    Bits(Vec<u8>),
    Vec(Vec<MV>),
    Map(Vec<(MV, MV)>),
}

impl MV {
    pub fn type_rank(&self) -> u8 {
        match self {
            MV::Nil => 0,
            MV::Flag(_) => 1,
            MV::Int(_) => 2,
            MV::Real(_) => 3,
            MV::Str(_) => 4,
            MV::Bits(_) => 5,
            MV::Vec(_) => 6,
            MV::Map(_) => 7,
        }
    }
    pub fn type_name(&self) -> &'static str {
        ["nil", "flag", "int", "real", "str", "bitstr", "vec", "map"][self.type_rank() as usize]
    }
    /// the language's equality: structural, never across types, tags do not exist in the model
    pub fn eq(&self, o: &MV) -> bool {
        match (self, o) {
            (MV::Nil, MV::Nil) => true,
            (MV::Flag(a), MV::Flag(b)) => a == b,
            (MV::Int(a), MV::Int(b)) => a == b,
            (MV::Real(a), MV::Real(b)) => a == b,
            (MV::Str(a), MV::Str(b)) => a == b,
            (MV::Bits(a), MV::Bits(b)) => a == b,
            (MV::Vec(a), MV::Vec(b)) => a.len() == b.len() && a.iter().zip(b).all(|(x, y)| x.eq(y)),
            (MV::Map(a), MV::Map(b)) => a.len() == b.len() && a.iter().all(|(k, v)| b.iter().any(|(k2, v2)| k.eq(k2) && v.eq(v2))),
            _ => false,
        }
    }
    pub fn show(&self) -> String {
        match self {
            MV::Nil => "nil".into(),
            MV::Flag(b) => format!("{}", b),
            MV::Int(i) => format!("{}", i),
            MV::Real(r) => format!("{:?}r", r),
            MV::Str(s) => format!("{:?}", s),
            MV::Bits(b) => format!("|{}|", b.iter().map(|x| if *x == 1 { '1' } else { '0' }).collect::<String>()),
            MV::Vec(v) => format!("[ {} ]", v.iter().map(|x| x.show()).collect::<Vec<_>>().join(" ")),
            MV::Map(m) => format!("{{ {} }}", m.iter().map(|(k, v)| format!("{} {}", v.show(), k.show())).collect::<Vec<_>>().join(", ")),
        }
    }
}

/// a bit-string value with these bits. Which storage it gets is a function of the bits (so that a case replays): a
/// buffer of its own, or - for half of the values - a view into a longer buffer that starts and ends anywhere, as the
/// values cut out of binary input do. No property may depend on which.
pub fn bits_to_bitstr(bits: &[u8]) -> Xbitstr {
    let h = fnv1a(bits) ^ (bits.len() as u64).wrapping_mul(0x9E37_79B9_7F4A_7C15);
    let mut b = xeh::bitstr::BitvecBuilder::default();
    if h & 1 == 0 {
        for x in bits {
            b.append_bit(*x);
        }
        return b.finish();
    }
    let lead = ((h >> 8) % 19) as usize;
    let trail = ((h >> 16) % 21) as usize;
    for i in 0..lead {
        b.append_bit(((h >> (20 + i % 40)) & 1) as u8);
    }
    for x in bits {
        b.append_bit(*x);
    }
    for i in 0..trail {
        b.append_bit(((h >> (3 + i % 50)) & 1) as u8);
    }
    b.finish().substr(lead, lead + bits.len()).expect("harness: view of own buffer")
}

/// model value -> cell; with `tag_rng` some cells (at any depth) get tags, which must never matter
pub fn to_cell(v: &MV, tag_rng: &mut Option<&mut Rng>) -> Cell {
    let c = match v {
        MV::Nil => Cell::Nil,
        MV::Flag(b) => Cell::Flag(*b),
        MV::Int(i) => Cell::Int(*i),
        MV::Real(r) => Cell::Real(*r),
        MV::Str(s) => Cell::from(s.as_str()),
        MV::Bits(b) => Cell::Bitstr(bits_to_bitstr(b)),
        MV::Vec(xs) => {
            let mut out = Xvec::new();
            for x in xs {
                out.push_back_mut(to_cell(x, tag_rng));
            }
            Cell::Vector(out)
        }
        MV::Map(m) => {
            let mut out = Xmap::new();
            for (k, val) in m {
                out.insert_mut(to_cell(k, tag_rng), to_cell(val, tag_rng));
            }
            Cell::Map(out)
        }
    };
    if let Some(r) = tag_rng {
        if r.chance(1, 6) {
            let mut t = Xmap::new();
            t.insert_mut(Cell::from("t"), Cell::Int(r.below(5) as i128));
            return c.with_tags(t);
        }
    }
    c
}

pub fn from_cell(c: &Cell) -> Option<MV> {
    Some(match c.value() {
        Cell::Nil => MV::Nil,
        Cell::Flag(b) => MV::Flag(*b),
        Cell::Int(i) => MV::Int(*i),
        Cell::Real(r) => MV::Real(*r),
        Cell::Str(s) => MV::Str(s.to_string()),
        Cell::Bitstr(b) => MV::Bits(b.bits().collect()),
        Cell::Vector(v) => MV::Vec(v.iter().map(from_cell).collect::<Option<Vec<_>>>()?),
        Cell::Map(m) => MV::Map(m.iter().map(|(k, v)| Some((from_cell(k)?, from_cell(v)?))).collect::<Option<Vec<_>>>()?),
        _ => return None,
    })
}

pub fn gen_scalar(rng: &mut Rng) -> MV {
    match rng.below(12) {
        0 => MV::Nil,
        1 => MV::Flag(rng.flip()),
        2 | 3 | 4 => MV::Int(*rng.pick(&[0i128, 1, 2, -1, 255, i64::MAX as i128, i128::MIN, i128::MAX, 3, 7])),
        5 => MV::Real(*rng.pick(&[0.0, -0.0, 1.0, 2.0, -1.5, 1e300, f64::INFINITY, f64::NEG_INFINITY, 3.0, 0.1])),
        6 | 7 => MV::Str(rng.pick(&["", "a", "b", "1", "caf\u{e9}", "\u{4e16}\u{754c}", "k", "nil", "true"]).to_string()),
        8 => {
            let n = rng.below(20);
            MV::Bits((0..n).map(|_| (rng.next_u64() & 1) as u8).collect())
        }
        _ => MV::Int(rng.range(-4, 6) as i128),
    }
}

/// a key of the given type rank (composite keys are built from small ints so that equal keys are frequent)
pub fn gen_key_of(rng: &mut Rng, rank: u8) -> MV {
    match rank {
        0 => MV::Nil,
        1 => MV::Flag(rng.flip()),
        2 => MV::Int(*rng.pick(&[0i128, 1, 2, -1, 255, i64::MAX as i128, i128::MIN, i128::MAX, 3, 7, 1 << 64])),
        3 => MV::Real(*rng.pick(&[0.0, -0.0, 1.0, 2.0, -1.5, 1e300, f64::INFINITY, f64::NEG_INFINITY, 3.0, 0.1])),
        4 => MV::Str(rng.pick(&["", "a", "b", "1", "caf\u{e9}", "\u{4e16}\u{754c}", "k", "nil", "true", "ab"]).to_string()),
        5 => {
            let n = rng.below(7);
            MV::Bits((0..n).map(|_| (rng.next_u64() & 1) as u8).collect())
        }
        6 => MV::Vec((0..rng.below(3)).map(|_| MV::Int(rng.below(3) as i128)).collect()),
        _ => {
            let mut m = vec![];
            for _ in 0..rng.below(3) {
                map_insert(&mut m, MV::Int(rng.below(3) as i128), MV::Int(rng.below(2) as i128));
            }
            MV::Map(m)
        }
    }
}

/// `mixed` = maps may hold keys of different types (exercised by its own shard, see known findings)
pub fn gen_value_m(rng: &mut Rng, depth: usize, mixed: bool) -> MV {
    if depth >= 2 || rng.chance(3, 4) {
        return gen_scalar(rng);
    }
    if rng.flip() {
        MV::Vec((0..rng.below(4)).map(|_| gen_value_m(rng, depth + 1, mixed)).collect())
    } else {
        let mut m: Vec<(MV, MV)> = vec![];
        let rank = rng.below(8) as u8;
        for _ in 0..rng.below(4) {
            let k = if mixed { gen_value_m(rng, depth + 1, mixed) } else { gen_key_of(rng, rank) };
            let v = gen_value_m(rng, depth + 1, mixed);
            map_insert(&mut m, k, v);
        }
        MV::Map(m)
    }
}

pub fn gen_value(rng: &mut Rng, depth: usize) -> MV {
    gen_value_m(rng, depth, true)
}

/// does comparing the two keys ever compare values of different types (directly, or element-wise inside composite keys)?
pub fn keys_cross_type(a: &MV, b: &MV) -> bool {
    match (a, b) {
        (MV::Vec(x), MV::Vec(y)) => x.iter().zip(y.iter()).any(|(p, q)| keys_cross_type(p, q)),
        (MV::Map(x), MV::Map(y)) => x.iter().any(|(k1, v1)| y.iter().any(|(k2, v2)| keys_cross_type(k1, k2) || keys_cross_type(v1, v2))),
        _ => a.type_rank() != b.type_rank(),
    }
}

/// does the value contain (at any depth) a map in which two keys are of different types?
pub fn has_mixed_map(v: &MV) -> bool {
    match v {
        MV::Vec(xs) => xs.iter().any(has_mixed_map),
        MV::Map(m) => {
            let mut mixed = false;
            for i in 0..m.len() {
                for j in i + 1..m.len() {
                    mixed |= keys_cross_type(&m[i].0, &m[j].0);
                }
            }
            mixed || m.iter().any(|(k, v)| has_mixed_map(k) || has_mixed_map(v))
        }
        _ => false,
    }
}

pub fn map_insert(m: &mut Vec<(MV, MV)>, k: MV, v: MV) {
    for e in m.iter_mut() {
        if e.0.eq(&k) {
            e.1 = v;
            return;
        }
    }
    m.push((k, v));
}

fn index_values(rng: &mut Rng, len: usize) -> i128 {
    let l = len as i128;
    match rng.below(16) {
        0 => 0,
        1 => 1,
        2 => -1,
        3 => l,
        4 => -l,
        5 => l + 1,
        6 => -(l + 1),
        7 => l - 1,
        8 => isize::MAX as i128,
        9 => isize::MIN as i128,
        10 => 1i128 << 64,
        11 => i128::MAX,
        12 => i128::MIN,
        13 => (1i128 << 64) + 1,
        14 => -(1i128 << 64),
        _ => rng.range(-(l as i64) - 2, l as i64 + 2) as i128,
    }
}

fn index_class(i: i128, len: usize) -> &'static str {
    let l = len as i128;
    if i == 0 {
        "0"
    } else if i > 0 && i < l {
        "inside"
    } else if i == l {
        "len"
    } else if i < 0 && i.unsigned_abs() <= l as u128 {
        "neg-inside"
    } else if i > isize::MAX as i128 || i < isize::MIN as i128 {
        "beyond-isize"
    } else if i == isize::MAX as i128 || i == isize::MIN as i128 {
        "isize-extreme"
    } else if i > 0 {
        "above"
    } else {
        "below"
    }
}

/// clamp as the slice word documents through its tests: negative counts from the end, everything is clamped to 0..=len
fn model_slice_index(i: i128, len: usize) -> usize {
    if i < 0 {
        let back = i.unsigned_abs();
        if back >= len as u128 {
            0
        } else {
            len - back as usize
        }
    } else if i as u128 >= len as u128 {
        len
    } else {
        i as usize
    }
}

fn model_slice<T: Clone>(xs: &[T], s: i128, e: i128) -> Vec<T> {
    let a = model_slice_index(s, xs.len());
    let b = model_slice_index(e, xs.len());
    if b <= a {
        vec![]
    } else {
        xs[a..b].to_vec()
    }
}

pub struct C12 {
    seed: u64,
    boot: Xstate,
    mixed: bool,
}

impl C12 {
    pub fn new(a: &Args) -> C12 {
        let mut boot = Xstate::boot().expect("boot");
        boot.intercept_stdout(true);
        let _ = boot.set_insn_limit(Some(20_000));
        C12 { seed: a.seed, boot, mixed: a.mode == "mixed" }
    }
}

enum Out {
    Val(Cell),
    Vals(Vec<Cell>),
    Err(Xerr),
    Panic(String),
}

fn run_word(boot: &Xstate, args: &[Cell], src: &str) -> Out {
    let mut xs = boot.clone();
    for a in args {
        let _ = xs.push_data(a.clone());
    }
    match catch(|| xs.eval(src)) {
        Err((m, l)) => Out::Panic(format!("{} at {}", m, normalise_loc(&l))),
        Ok(Err(e)) => Out::Err(e),
        Ok(Ok(())) => {
            let n = xs.data_depth();
            let mut v: Vec<Cell> = (0..n).rev().filter_map(|i| xs.get_data(i).cloned()).collect();
            if v.len() == 1 {
                Out::Val(v.pop().unwrap())
            } else {
                Out::Vals(v)
            }
        }
    }
}

struct Entry {
    cell: Cell,
    model: MV,
}

impl C12 {
    fn fail(&self, obs: &mut Obs, idx: u64, word: &str, class: &str, log: &[String], detail: String) {
        // in the mixed-key shard a (non-crash) mismatch on a history that involves keys of different types in one map is
        // attributed to the input class of the known finding; everything else keeps its own signature
        let sig = if self.mixed && class != "panic" && log.iter().any(|l| l.contains("<mixed-key-types>")) {
            "C12:mixed-key-types".to_string()
        } else {
            format!("C12:{}:{}", word, class)
        };
        obs.violation(Violation { class: format!("{}:{}", word, class), sig, index: idx, case: log.join("\n"), detail });
    }
}

impl Monitor for C12 {
    fn run_case(&mut self, idx: u64, obs: &mut Obs) {
        let mut rng = Rng::for_case("C12", self.seed, idx);
        let mut pool: Vec<Entry> = vec![];
        let mut log: Vec<String> = vec![];
        // seed the pool with a map, a vector and a string
        for k in 0..3 {
            let m = match k {
                0 => MV::Map(vec![]),
                1 => MV::Vec((0..rng.below(5)).map(|_| gen_value_m(&mut rng, 1, self.mixed)).collect()),
                _ => MV::Str(rng.pick(&["", "abc", "h\u{e9}llo w\u{f6}rld", "0123456789"]).to_string()),
            };
            let mut tr = rng.clone();
            let cell = to_cell(&m, &mut Some(&mut tr));
            if has_mixed_map(&m) {
                log.push("<mixed-key-types> from here on".into());
            }
            log.push(format!("c{} = {}", pool.len(), m.show()));
            pool.push(Entry { cell, model: m });
        }
        let nops = 10 + rng.below(50);
        for step in 0..nops {
            let i = rng.below(pool.len());
            let model = pool[i].model.clone();
            let cell = pool[i].cell.clone();
            let mut tag_rng = rng.clone();
            macro_rules! tcell {
                ($v:expr) => {
                    to_cell($v, &mut Some(&mut tag_rng))
                };
            }
            match &model {
                MV::Map(m) => {
                    let op = rng.below(7);
                    // a key: fresh, or equal to an existing one (possibly built independently)
                    let key = if !m.is_empty() && rng.chance(1, 2) {
                        m[rng.below(m.len())].0.clone()
                    } else if self.mixed {
                        gen_value_m(&mut rng, 1, true)
                    } else {
                        // same type as the keys already there (any type for an empty map)
                        let rank = m.first().map(|e| e.0.type_rank()).unwrap_or(rng.below(8) as u8);
                        gen_key_of(&mut rng, rank)
                    };
                    if m.iter().any(|(k, _)| keys_cross_type(k, &key)) || has_mixed_map(&model) || has_mixed_map(&key) {
                        log.push("<mixed-key-types> from here on".into());
                    }
                    match op {
                        0 | 1 | 2 => {
                            let val = gen_value_m(&mut rng, 1, self.mixed);
                            if has_mixed_map(&val) {
                                log.push("<mixed-key-types> from here on".into());
                            }
                            log.push(format!("[{}] c{} = c{} {} {} insert", step, pool.len(), i, val.show(), key.show()));
                            obs.count("op:insert");
                            for (k2, _) in m.iter() {
                                obs.see("key_type_pairs", &format!("{}+{}", key.type_name(), k2.type_name()));
                            }
                            match run_word(&self.boot, &[cell.clone(), tcell!(&val), tcell!(&key)], "insert") {
                                Out::Val(c) => {
                                    let mut want = m.clone();
                                    map_insert(&mut want, key.clone(), val.clone());
                                    let want = MV::Map(want);
                                    match from_cell(&c) {
                                        Some(g) if g.eq(&want) => pool.push(Entry { cell: c, model: want }),
                                        g => return self.fail(obs, idx, "insert", "result", &log, format!("got {} expected {}", g.map(|x| x.show()).unwrap_or_else(|| show(&c)), want.show())),
                                    }
                                }
                                Out::Panic(p) => return self.fail(obs, idx, "insert", "panic", &log, p),
                                Out::Err(e) => return self.fail(obs, idx, "insert", "error", &log, show_err(&e)),
                                Out::Vals(v) => return self.fail(obs, idx, "insert", "arity", &log, show_vec(&v)),
                            }
                        }
                        3 => {
                            log.push(format!("[{}] c{} = c{} {} remove", step, pool.len(), i, key.show()));
                            obs.count("op:remove");
                            match run_word(&self.boot, &[cell.clone(), tcell!(&key)], "remove") {
                                Out::Val(c) => {
                                    let want = MV::Map(m.iter().filter(|(k, _)| !k.eq(&key)).cloned().collect());
                                    match from_cell(&c) {
                                        Some(g) if g.eq(&want) => pool.push(Entry { cell: c, model: want }),
                                        g => return self.fail(obs, idx, "remove", "result", &log, format!("got {} expected {}", g.map(|x| x.show()).unwrap_or_else(|| show(&c)), want.show())),
                                    }
                                }
                                Out::Panic(p) => return self.fail(obs, idx, "remove", "panic", &log, p),
                                Out::Err(e) => return self.fail(obs, idx, "remove", "error", &log, show_err(&e)),
                                Out::Vals(v) => return self.fail(obs, idx, "remove", "arity", &log, show_vec(&v)),
                            }
                        }
                        4 => {
                            log.push(format!("[{}] c{} {} get", step, i, key.show()));
                            obs.count("op:map-get");
                            let want = m.iter().find(|(k, _)| k.eq(&key)).map(|(_, v)| v.clone()).unwrap_or(MV::Nil);
                            match run_word(&self.boot, &[cell.clone(), tcell!(&key)], "get") {
                                Out::Val(c) => match from_cell(&c) {
                                    Some(g) if g.eq(&want) => {}
                                    g => return self.fail(obs, idx, "get", "map-result", &log, format!("got {} expected {}", g.map(|x| x.show()).unwrap_or_else(|| show(&c)), want.show())),
                                },
                                Out::Panic(p) => return self.fail(obs, idx, "get", "panic", &log, p),
                                Out::Err(e) => return self.fail(obs, idx, "get", "map-error", &log, show_err(&e)),
                                Out::Vals(v) => return self.fail(obs, idx, "get", "arity", &log, show_vec(&v)),
                            }
                        }
                        5 => {
                            // foreach visits every entry exactly once (order unspecified)
                            log.push(format!("[{}] [ c{} foreach I 2 collect loop ]", step, i));
                            obs.count("op:map-foreach");
                            match run_word(&self.boot, &[cell.clone()], "foreach I 2 collect loop depth collect") {
                                Out::Val(c) => {
                                    let got = from_cell(&c);
                                    let ok = match &got {
                                        Some(MV::Vec(pairs)) => {
                                            pairs.len() == m.len()
                                                && m.iter().all(|(k, v)| pairs.iter().filter(|p| matches!(p, MV::Vec(kv) if kv.len() == 2 && kv[0].eq(k) && kv[1].eq(v))).count() == 1)
                                        }
                                        _ => false,
                                    };
                                    if !ok {
                                        return self.fail(obs, idx, "foreach", "map-entries", &log, format!("visited {} expected the entries of {}", got.map(|x| x.show()).unwrap_or_else(|| show(&c)), model.show()));
                                    }
                                }
                                Out::Panic(p) => return self.fail(obs, idx, "foreach", "panic", &log, p),
                                Out::Err(e) => return self.fail(obs, idx, "foreach", "error", &log, show_err(&e)),
                                Out::Vals(v) => return self.fail(obs, idx, "foreach", "arity", &log, show_vec(&v)),
                            }
                        }
                        _ => {
                            // map literal from the same pairs in a shuffled order, plus duplicates: later pair wins, equal? holds
                            let mut pairs: Vec<(MV, MV)> = m.clone();
                            for j in (1..pairs.len()).rev() {
                                pairs.swap(j, rng.below(j + 1));
                            }
                            let mut flat = vec![];
                            if !pairs.is_empty() && rng.flip() {
                                // an overwritten earlier entry for one of the keys
                                let (k, _) = pairs[rng.below(pairs.len())].clone();
                                flat.push(MV::Str("overwritten".into()));
                                flat.push(k);
                            }
                            for (k, v) in &pairs {
                                flat.push(v.clone());
                                flat.push(k.clone());
                            }
                            log.push(format!("[{}] {{ {} }} c{} equal?", step, flat.iter().map(|x| x.show()).collect::<Vec<_>>().join(" "), i));
                            obs.count("op:map-literal");
                            let lit = tcell!(&MV::Vec(flat));
                            match run_word(&self.boot, &[cell.clone(), lit], "var items var m { items unbox } dup m equal?") {
                                Out::Vals(v) if v.len() == 2 => {
                                    let built = from_cell(&v[0]);
                                    if !matches!(&built, Some(b) if b.eq(&model)) || show(&v[1]) != "true" {
                                        return self.fail(obs, idx, "map-literal", "result", &log, format!("literal built {} (equal? {}) expected {}", built.map(|x| x.show()).unwrap_or_default(), show(&v[1]), model.show()));
                                    }
                                }
                                Out::Panic(p) => return self.fail(obs, idx, "map-literal", "panic", &log, p),
                                Out::Err(e) => return self.fail(obs, idx, "map-literal", "error", &log, show_err(&e)),
                                Out::Val(c) => return self.fail(obs, idx, "map-literal", "arity", &log, show(&c)),
                                Out::Vals(v) => return self.fail(obs, idx, "map-literal", "arity", &log, show_vec(&v)),
                            }
                        }
                    }
                }
                MV::Vec(v) => {
                    let len = v.len();
                    match rng.below(11) {
                        0 | 1 => {
                            let val = gen_value_m(&mut rng, 1, self.mixed);
                            if has_mixed_map(&val) {
                                log.push("<mixed-key-types> from here on".into());
                            }
                            log.push(format!("[{}] c{} = {} c{} push", step, pool.len(), val.show(), i));
                            obs.count("op:push");
                            match run_word(&self.boot, &[tcell!(&val), cell.clone()], "push") {
                                Out::Val(c) => {
                                    let mut w = v.clone();
                                    w.push(val);
                                    let want = MV::Vec(w);
                                    match from_cell(&c) {
                                        Some(g) if g.eq(&want) => pool.push(Entry { cell: c, model: want }),
                                        g => return self.fail(obs, idx, "push", "result", &log, format!("got {} expected {}", g.map(|x| x.show()).unwrap_or_default(), want.show())),
                                    }
                                }
                                Out::Panic(p) => return self.fail(obs, idx, "push", "panic", &log, p),
                                Out::Err(e) => return self.fail(obs, idx, "push", "error", &log, show_err(&e)),
                                Out::Vals(x) => return self.fail(obs, idx, "push", "arity", &log, show_vec(&x)),
                            }
                        }
                        2 | 3 => {
                            let ix = index_values(&mut rng, len);
                            let word = if rng.flip() { "nth" } else { "get" };
                            log.push(format!("[{}] c{} {} {}", step, i, ix, word));
                            obs.count(&format!("op:{}", word));
                            obs.see(&format!("index_classes:{}", word), index_class(ix, len));
                            let want: Option<MV> = if word == "nth" {
                                if ix >= 0 && (ix as u128) < len as u128 {
                                    Some(v[ix as usize].clone())
                                } else if ix < 0 && ix.unsigned_abs() <= len as u128 {
                                    Some(v[len - ix.unsigned_abs() as usize].clone())
                                } else {
                                    None
                                }
                            } else if ix >= 0 && (ix as u128) < len as u128 {
                                Some(v[ix as usize].clone())
                            } else {
                                None
                            };
                            match (run_word(&self.boot, &[cell.clone(), Cell::Int(ix)], word), want) {
                                (Out::Val(c), Some(w)) => {
                                    if !matches!(from_cell(&c), Some(g) if g.eq(&w)) {
                                        return self.fail(obs, idx, word, "element", &log, format!("got {} expected {}", show(&c), w.show()));
                                    }
                                }
                                (Out::Err(_), None) => obs.count("index_errors_confirmed"),
                                (Out::Panic(p), _) => return self.fail(obs, idx, word, "panic", &log, p),
                                (Out::Val(c), None) => return self.fail(obs, idx, word, "out-of-range-accepted", &log, format!("index {} of a {}-element vector returned {}", ix, len, show(&c))),
                                (Out::Err(e), Some(w)) => return self.fail(obs, idx, word, "valid-index-refused", &log, format!("index {} of a {}-element vector: {} (expected {})", ix, len, show_err(&e), w.show())),
                                (Out::Vals(x), _) => return self.fail(obs, idx, word, "arity", &log, show_vec(&x)),
                            }
                        }
                        4 | 5 => {
                            let (s, e) = (index_values(&mut rng, len), index_values(&mut rng, len));
                            log.push(format!("[{}] c{} = c{} {} {} slice", step, pool.len(), i, s, e));
                            obs.count("op:slice");
                            obs.see("index_classes:slice", index_class(s, len));
                            obs.see("index_classes:slice", index_class(e, len));
                            let want = MV::Vec(model_slice(v, s, e));
                            match run_word(&self.boot, &[cell.clone(), Cell::Int(s), Cell::Int(e)], "slice") {
                                Out::Val(c) => match from_cell(&c) {
                                    Some(g) if g.eq(&want) => pool.push(Entry { cell: c, model: want }),
                                    g => return self.fail(obs, idx, "slice", "result", &log, format!("got {} expected {}", g.map(|x| x.show()).unwrap_or_default(), want.show())),
                                },
                                Out::Panic(p) => return self.fail(obs, idx, "slice", "panic", &log, p),
                                Out::Err(er) => return self.fail(obs, idx, "slice", "error", &log, format!("{} (slice clamps every index)", show_err(&er))),
                                Out::Vals(x) => return self.fail(obs, idx, "slice", "arity", &log, show_vec(&x)),
                            }
                        }
                        6 => {
                            log.push(format!("[{}] c{} = c{} reverse; c{} length", step, pool.len(), i, i));
                            obs.count("op:reverse");
                            match run_word(&self.boot, &[cell.clone()], "dup length swap reverse") {
                                Out::Vals(x) if x.len() == 2 => {
                                    let want = MV::Vec(v.iter().rev().cloned().collect());
                                    if show(&x[0]) != format!("{}", len) {
                                        return self.fail(obs, idx, "length", "vec", &log, format!("length {} expected {}", show(&x[0]), len));
                                    }
                                    match from_cell(&x[1]) {
                                        Some(g) if g.eq(&want) => pool.push(Entry { cell: x[1].clone(), model: want }),
                                        g => return self.fail(obs, idx, "reverse", "result", &log, format!("got {} expected {}", g.map(|x| x.show()).unwrap_or_default(), want.show())),
                                    }
                                }
                                Out::Panic(p) => return self.fail(obs, idx, "reverse", "panic", &log, p),
                                Out::Err(er) => return self.fail(obs, idx, "reverse", "error", &log, show_err(&er)),
                                Out::Val(c) => return self.fail(obs, idx, "reverse", "arity", &log, show(&c)),
                                Out::Vals(x) => return self.fail(obs, idx, "reverse", "arity", &log, show_vec(&x)),
                            }
                        }
                        7 => {
                            // unbox then collect k of them
                            let k = rng.below(len + 2);
                            log.push(format!("[{}] c{} unbox {} collect", step, i, k));
                            obs.count("op:unbox-collect");
                            match run_word(&self.boot, &[cell.clone(), Cell::Int(k as i128)], "var k unbox k collect depth collect") {
                                Out::Val(c) => {
                                    if k > len {
                                        return self.fail(obs, idx, "collect", "underflow-accepted", &log, format!("collected {} of {} items: {}", k, len, show(&c)));
                                    }
                                    let mut want: Vec<MV> = v[..len - k].to_vec();
                                    want.push(MV::Vec(v[len - k..].to_vec()));
                                    let want = MV::Vec(want);
                                    if !matches!(from_cell(&c), Some(g) if g.eq(&want)) {
                                        return self.fail(obs, idx, "collect", "result", &log, format!("got {} expected {}", show(&c), want.show()));
                                    }
                                }
                                Out::Err(_) if k > len => obs.count("index_errors_confirmed"),
                                Out::Panic(p) => return self.fail(obs, idx, "collect", "panic", &log, p),
                                Out::Err(er) => return self.fail(obs, idx, "collect", "error", &log, show_err(&er)),
                                Out::Vals(x) => return self.fail(obs, idx, "collect", "arity", &log, show_vec(&x)),
                            }
                        }
                        8 => {
                            // sort a vector of mutually comparable elements drawn from this step
                            let kind = rng.below(3);
                            let items: Vec<MV> = (0..rng.below(9))
                                .map(|_| match kind {
                                    0 => MV::Int(*rng.pick(&[0i128, -1, 5, 5, i128::MAX, i128::MIN, 3, 1 << 70, 2])),
                                    1 => MV::Str(rng.pick(&["b", "a", "", "ab", "B", "\u{e9}", "a", "10", "9"]).to_string()),
                                    _ => MV::Real(*rng.pick(&[0.5, -0.0, 0.0, 1e9, -3.25, f64::INFINITY, f64::NEG_INFINITY, 2.0])),
                                })
                                .collect();
                            log.push(format!("[{}] {} sort", step, MV::Vec(items.clone()).show()));
                            obs.count("op:sort");
                            match run_word(&self.boot, &[tcell!(&MV::Vec(items.clone()))], "sort") {
                                Out::Val(c) => {
                                    let got = match from_cell(&c) {
                                        Some(MV::Vec(g)) => g,
                                        _ => return self.fail(obs, idx, "sort", "type", &log, show(&c)),
                                    };
                                    let le = |a: &MV, b: &MV| match (a, b) {
                                        (MV::Int(x), MV::Int(y)) => x <= y,
                                        (MV::Str(x), MV::Str(y)) => x <= y,
                                        (MV::Real(x), MV::Real(y)) => x <= y,
                                        _ => false,
                                    };
                                    let ascending = got.windows(2).all(|w| le(&w[0], &w[1]));
                                    let mut rest = items.clone();
                                    let mut perm = got.len() == items.len();
                                    for g in &got {
                                        match rest.iter().position(|r| r.eq(g)) {
                                            Some(p) => {
                                                rest.remove(p);
                                            }
                                            None => perm = false,
                                        }
                                    }
                                    if !ascending || !perm {
                                        return self.fail(obs, idx, "sort", "result", &log, format!("got {} (ascending {}, permutation {})", MV::Vec(got).show(), ascending, perm));
                                    }
                                }
                                Out::Panic(p) => return self.fail(obs, idx, "sort", "panic", &log, p),
                                Out::Err(er) => return self.fail(obs, idx, "sort", "error", &log, show_err(&er)),
                                Out::Vals(x) => return self.fail(obs, idx, "sort", "arity", &log, show_vec(&x)),
                            }
                        }
                        9 => {
                            // concat / join over (nested) vectors of strings
                            let parts: Vec<MV> = (0..rng.below(5))
                                .map(|_| {
                                    if rng.chance(1, 4) {
                                        MV::Vec((0..rng.below(3)).map(|_| MV::Str(rng.pick(&["x", "", "\u{e9}\u{e9}", "12"]).to_string())).collect())
                                    } else {
                                        MV::Str(rng.pick(&["a", "", "bc", "\u{4e16}", " "]).to_string())
                                    }
                                })
                                .collect();
                            let sep = rng.pick(&[",", "", "--", "\u{b7}"]).to_string();
                            fn flat(v: &[MV], sep: Option<&str>) -> String {
                                let mut s = String::new();
                                for (n, x) in v.iter().enumerate() {
                                    match x {
                                        MV::Vec(inner) => s.push_str(&flat(inner, sep)),
                                        MV::Str(t) => s.push_str(t),
                                        _ => {}
                                    }
                                    if let Some(sp) = sep {
                                        if n + 1 < v.len() {
                                            s.push_str(sp);
                                        }
                                    }
                                }
                                s
                            }
                            let use_join = rng.flip();
                            log.push(format!("[{}] {} {}", step, MV::Vec(parts.clone()).show(), if use_join { format!("{:?} join", sep) } else { "concat".into() }));
                            obs.count(if use_join { "op:join" } else { "op:concat" });
                            let (out, want) = if use_join {
                                (run_word(&self.boot, &[tcell!(&MV::Vec(parts.clone())), Cell::from(sep.as_str())], "join"), flat(&parts, Some(&sep)))
                            } else {
                                (run_word(&self.boot, &[tcell!(&MV::Vec(parts.clone()))], "concat"), flat(&parts, None))
                            };
                            match out {
                                Out::Val(c) => {
                                    if c.str().ok() != Some(want.as_str()) {
                                        return self.fail(obs, idx, if use_join { "join" } else { "concat" }, "result", &log, format!("got {} expected {:?}", show(&c), want));
                                    }
                                }
                                Out::Panic(p) => return self.fail(obs, idx, "concat", "panic", &log, p),
                                Out::Err(er) => return self.fail(obs, idx, "concat", "error", &log, show_err(&er)),
                                Out::Vals(x) => return self.fail(obs, idx, "concat", "arity", &log, show_vec(&x)),
                            }
                        }
                        _ => {
                            // a vector (or any value) used as a map key / new map in the pool
                            let mut m = vec![];
                            let rank = rng.below(8) as u8;
                            for _ in 0..1 + rng.below(4) {
                                let k = if self.mixed { gen_value_m(&mut rng, 0, true) } else { gen_key_of(&mut rng, rank) };
                                let val = gen_scalar(&mut rng);
                                map_insert(&mut m, k, val);
                            }
                            let nm = MV::Map(m);
                            if has_mixed_map(&nm) {
                                log.push("<mixed-key-types> from here on".into());
                            }
                            log.push(format!("c{} = {}", pool.len(), nm.show()));
                            let c = tcell!(&nm);
                            // the cell was built through insert_mut by the harness: check it agrees with the model first
                            if !matches!(from_cell(&c), Some(g) if g.eq(&nm)) {
                                return self.fail(obs, idx, "map-build", "result", &log, format!("inserting the pairs of {} one by one gave {}", nm.show(), show_untagged(&c)));
                            }
                            pool.push(Entry { cell: c, model: nm });
                        }
                    }
                }
                MV::Str(s) => {
                    let chars: Vec<char> = s.chars().collect();
                    let len = chars.len();
                    let (a, b) = (index_values(&mut rng, len), index_values(&mut rng, len));
                    log.push(format!("[{}] c{} = c{} {} {} slice", step, pool.len(), i, a, b));
                    obs.count("op:str-slice");
                    obs.see("index_classes:str-slice", index_class(a, len));
                    let want: String = model_slice(&chars, a, b).into_iter().collect();
                    match run_word(&self.boot, &[cell.clone(), Cell::Int(a), Cell::Int(b)], "slice") {
                        Out::Val(c) => {
                            if c.str().ok() != Some(want.as_str()) {
                                return self.fail(obs, idx, "slice", "str-result", &log, format!("got {} expected {:?}", show(&c), want));
                            }
                            pool.push(Entry { cell: c, model: MV::Str(want) });
                        }
                        Out::Panic(p) => return self.fail(obs, idx, "slice", "panic", &log, p),
                        Out::Err(er) => return self.fail(obs, idx, "slice", "str-error", &log, show_err(&er)),
                        Out::Vals(x) => return self.fail(obs, idx, "slice", "arity", &log, show_vec(&x)),
                    }
                    if s.is_ascii() {
                        if let Out::Val(c) = run_word(&self.boot, &[cell.clone()], "length") {
                            if show(&c) != format!("{}", len) {
                                return self.fail(obs, idx, "length", "str", &log, format!("length {} expected {}", show(&c), len));
                            }
                            obs.count("op:str-length");
                        }
                    }
                }
                _ => {}
            }
            // keep the pool small but always keep the three kinds
            if pool.len() > 14 {
                let k = 3 + rng.below(pool.len() - 3);
                pool.remove(k);
            }
            // value semantics: nothing that is still referenced has changed
            if step % 8 == 7 || step + 1 == nops {
                for (j, e) in pool.iter().enumerate() {
                    obs.count("old_value_rechecks");
                    if !matches!(from_cell(&e.cell), Some(g) if g.eq(&e.model)) {
                        return self.fail(obs, idx, "value-semantics", "changed", &log, format!("c{} now reads {} but was {}", j, show_untagged(&e.cell), e.model.show()));
                    }
                }
            }
        }
        obs.add("evaluations", 1);
        obs.shape(fnv1a(log.join("|").as_bytes()));
        if idx % 991 == 0 {
            obs.sample(J::obj(vec![("index", J::Int(idx as i128)), ("ops", J::Arr(log.iter().take(12).map(|l| J::s(truncate(l, 200))).collect()))]));
        }
    }
    fn boot_mut(&mut self) -> Option<&mut Xstate> {
        Some(&mut self.boot)
    }
    fn describe(&mut self, idx: u64) -> String {
        format!("collection operation sequence #{}", idx)
    }
}
