//! C06 — parsing cursor: a read returns exactly the requested bits and advances that far.
//! Oracle: cursor model — a stack of (input bits, absolute position of the first bit, bits consumed) plus independent
//! number decoders. After every word the real `offset`, `remain`, `input` and data stack are compared with the model;
//! after a failing word nothing may have moved.
use super::Monitor;
use crate::mon::c05::{mask, sign_extend};
use crate::mon::c12::bits_to_bitstr;
use crate::mon::c15::truncate;
use crate::render::*;
use crate::util::*;
use crate::Args;
use xeh::prelude::*;

pub struct C06 {
    seed: u64,
    boot: Xstate,
}

impl C06 {
    pub fn new(a: &Args) -> C06 {
        let mut boot = Xstate::boot().expect("boot");
        boot.intercept_stdout(true);
        let _ = boot.set_insn_limit(Some(5_000));
        let _ = boot.set_stack_limit(Some(1_000));
        C06 { seed: a.seed, boot }
    }
}

/// value of a field's bits: big-endian is the plain bit sequence; little-endian is defined on the value's 8-bit groups
/// (first group least significant, a shorter last group most significant)
pub fn decode_unsigned(bits: &[u8], big: bool) -> u128 {
    let mut v: u128 = 0;
    if big {
        for b in bits {
            v = (v << 1) | *b as u128;
        }
    } else {
        let mut shift = 0;
        for g in bits.chunks(8) {
            let mut x: u128 = 0;
            for b in g {
                x = (x << 1) | *b as u128;
            }
            v |= x << shift;
            shift += g.len();
        }
    }
    v
}

struct Frame {
    bits: Vec<u8>,
    /// absolute position of the first bit (as `offset` showed right after open-bitstr)
    lo: usize,
    pos: usize,
}

fn hostile_size(rng: &mut Rng, remain: usize) -> i128 {
    let r = remain as i128;
    match rng.below(22) {
        0 => 0,
        1 => r,
        2 => r + 1,
        3 => (r - 1).max(0),
        4 => (1i128 << 32) - 1,
        5 => (1i128 << 32) + 1,
        6 => 1i128 << 61,
        7 => (1i128 << 63) - 1,
        8 => 1i128 << 63,
        9 => (1i128 << 64) - 1,
        10 => 1i128 << 64,
        11 => (1i128 << 64) + 1,
        12 => i128::MAX,
        13 => -1,
        14 => i128::MIN,
        15 => (1i128 << 64) + 8,
        16 => usize::MAX as i128 / 8 + 1,
        _ => rng.below(remain + 3) as i128,
    }
}

impl C06 {
    fn fail(&self, obs: &mut Obs, idx: u64, word: &str, class: &str, log: &[String], detail: String) {
        obs.violation(Violation { class: format!("{}:{}", word, class), sig: format!("C06:{}:{}", word, class), index: idx, case: log.join("\n"), detail });
    }
}

impl Monitor for C06 {
    fn run_case(&mut self, idx: u64, obs: &mut Obs) {
        let mut rng = Rng::for_case("C06", self.seed, idx);
        let mut xs = self.boot.clone();
        let mut log: Vec<String> = vec![];
        let mut frames: Vec<Frame> = vec![];
        let mut big = false;
        // a value pool of slices to open: each is cut out of a longer random buffer at a random bit position
        let fresh = |rng: &mut Rng| -> (Cell, Vec<u8>) {
            let lead = rng.below(13);
            let len = if rng.chance(1, 8) { 0 } else { rng.below(200) };
            let len = if rng.chance(1, 3) { len / 8 * 8 } else { len };
            let trail = rng.below(9);
            let all: Vec<u8> = (0..lead + len + trail).map(|_| (rng.next_u64() & 1) as u8).collect();
            let mut bs = bits_to_bitstr(&all);
            // cut [lead, lead+len) out of it through the public API
            let _ = bs.read(lead);
            let field = bs.read(len).unwrap_or_else(Xbitstr::new);
            (Cell::Bitstr(field), all[lead..lead + len].to_vec())
        };
        let nops = 6 + rng.below(70);
        for step in 0..nops {
            // ---- choose a word
            let remain = frames.last().map(|f| f.bits.len() - f.pos).unwrap_or(0);
            let k = if frames.is_empty() { 0 } else { rng.below(36) };
            let mut args: Vec<Cell> = vec![];
            let word: String;
            // expected outcome: Ok(Some(value rendering)) / Ok(None) (no result) / Err(()) = must fail and move nothing
            enum Want {
                Value(String),
                Nothing,
                Fail,
                /// outcome depends on storage alignment the statement does not fix (find on a cursor that is not byte aligned)
                Either(String),
            }
            let want: Want;
            let mut advance = 0usize;
            let mut new_frame: Option<Frame> = None;
            let mut pop_frame = false;
            let mut seek_to: Option<usize> = None;
            match k {
                0 if !frames.is_empty() && rng.chance(1, 3) => {
                    // the input that is open right now, opened once more (the very same view): a new level that starts
                    // at its first bit; close-bitstr comes back to where this level was
                    let f = frames.last().unwrap();
                    let cur = xs.get_var_value("input").ok().cloned().unwrap_or(Cell::Nil);
                    args.push(cur);
                    word = "open-bitstr".into();
                    want = Want::Nothing;
                    new_frame = Some(Frame { bits: f.bits.clone(), lo: f.lo, pos: 0 });
                    obs.count("open-bitstr:the-current-input-again");
                }
                0 | 1 => {
                    let (c, bits) = fresh(&mut rng);
                    args.push(c);
                    word = "open-bitstr".into();
                    want = Want::Nothing;
                    new_frame = Some(Frame { bits, lo: 0, pos: 0 });
                }
                2 | 3 => {
                    word = "close-bitstr".into();
                    // the interpreter starts with one implicit (empty) input below everything the case opens
                    want = Want::Nothing;
                    pop_frame = true;
                }
                4..=8 => {
                    let n = hostile_size(&mut rng, remain);
                    args.push(Cell::Int(n));
                    word = "bits".into();
                    if n >= 0 && (n as u128) <= remain as u128 {
                        let f = frames.last().unwrap();
                        advance = n as usize;
                        want = Want::Value(format!("|{}|", f.bits[f.pos..f.pos + advance].iter().map(|b| if *b == 1 { '1' } else { '0' }).collect::<String>()));
                    } else {
                        want = Want::Fail;
                    }
                }
                9 | 10 => {
                    let n = if rng.flip() { hostile_size(&mut rng, remain / 8) } else { rng.below(remain / 8 + 2) as i128 };
                    args.push(Cell::Int(n));
                    word = "bytes".into();
                    if n >= 0 && (n as u128).checked_mul(8).map(|b| b <= remain as u128).unwrap_or(false) {
                        let f = frames.last().unwrap();
                        advance = n as usize * 8;
                        want = Want::Value(format!("|{}|", f.bits[f.pos..f.pos + advance].iter().map(|b| if *b == 1 { '1' } else { '0' }).collect::<String>()));
                    } else {
                        want = Want::Fail;
                    }
                }
                11..=16 => {
                    // fixed-width reads
                    let w = *rng.pick(&[8usize, 16, 32, 64]);
                    let signed = rng.flip();
                    let order = *rng.pick(&["", "le", "be"]);
                    word = format!("{}{}{}", if signed { "i" } else { "u" }, w, order);
                    let b = match order {
                        "le" => false,
                        "be" => true,
                        _ => big,
                    };
                    if w <= remain {
                        let f = frames.last().unwrap();
                        let v = decode_unsigned(&f.bits[f.pos..f.pos + w], b);
                        advance = w;
                        want = Want::Value(if signed { format!("{}", sign_extend(v, w)) } else { format!("{}", v) });
                    } else {
                        want = Want::Fail;
                    }
                }
                17..=20 => {
                    let signed = rng.flip();
                    let n = if rng.chance(1, 3) { hostile_size(&mut rng, remain) } else { rng.below(remain.min(130) + 2) as i128 };
                    args.push(Cell::Int(n));
                    word = if signed { "int".into() } else { "uint".into() };
                    let limit = if signed { 128 } else { 127 };
                    if n >= 0 && (n as u128) <= remain as u128 && n <= limit && n > 0 {
                        let f = frames.last().unwrap();
                        let w = n as usize;
                        let v = decode_unsigned(&f.bits[f.pos..f.pos + w], big);
                        advance = w;
                        want = Want::Value(if signed { format!("{}", sign_extend(v, w)) } else { format!("{}", v & mask(w)) });
                    } else if n == 0 && remain as u128 >= 0 {
                        // a zero-width number: reads nothing; its value is 0 if accepted (the statement fixes only the cursor)
                        want = Want::Either("0".into());
                    } else {
                        want = Want::Fail;
                    }
                }
                21 | 22 => {
                    let w = *rng.pick(&[32usize, 64]);
                    let order = *rng.pick(&["", "le", "be"]);
                    word = format!("f{}{}", w, order);
                    let b = match order {
                        "le" => false,
                        "be" => true,
                        _ => big,
                    };
                    if w <= remain {
                        let f = frames.last().unwrap();
                        let v = decode_unsigned(&f.bits[f.pos..f.pos + w], b);
                        advance = w;
                        let r = if w == 32 { f32::from_bits(v as u32) as f64 } else { f64::from_bits(v as u64) };
                        want = Want::Value(if r.is_nan() { "nan".into() } else { format!("r{:016x}", r.to_bits()) });
                    } else {
                        want = Want::Fail;
                    }
                }
                23 => {
                    let n = *rng.pick(&[32i128, 64, 16, 0, 33, 128, 1 << 64, -1]);
                    args.push(Cell::Int(n));
                    word = "float".into();
                    if (n == 32 || n == 64) && n as usize <= remain {
                        let f = frames.last().unwrap();
                        let w = n as usize;
                        let v = decode_unsigned(&f.bits[f.pos..f.pos + w], big);
                        advance = w;
                        let r = if w == 32 { f32::from_bits(v as u32) as f64 } else { f64::from_bits(v as u64) };
                        want = Want::Value(if r.is_nan() { "nan".into() } else { format!("r{:016x}", r.to_bits()) });
                    } else {
                        want = Want::Fail;
                    }
                }
                24 | 25 => {
                    // magic: the next bits, a corrupted copy, or something longer than what is left
                    let f = frames.last().unwrap();
                    let n = rng.below(remain.min(40) + 1);
                    let mut pat: Vec<u8> = f.bits[f.pos..f.pos + n].to_vec();
                    let mode = rng.below(4);
                    if mode == 1 && n > 0 {
                        let j = rng.below(n);
                        pat[j] ^= 1;
                    } else if mode == 2 {
                        for _ in 0..remain - n + 1 + rng.below(9) {
                            pat.push(1);
                        }
                    }
                    // the pattern as a fresh value, as a slice cut out of a longer buffer (a tag read earlier and expected
                    // again), or as a piece of the very input being parsed, taken a few bits away from the cursor
                    let mut from_input: Option<Xbitstr> = None;
                    if rng.chance(1, 3) && n > 0 && f.bits.len() >= n {
                        if let Some(inp) = xs.get_var_value("input").ok().and_then(|c| c.bitstr().ok().cloned()) {
                            let q = (f.pos + rng.below(9)).saturating_sub(4).min(f.bits.len() - n);
                            if let Some(v) = inp.substr(inp.start() + q, inp.start() + q + n) {
                                pat = f.bits[q..q + n].to_vec();
                                from_input = Some(v);
                                obs.count("magic:pattern-is-a-piece-of-the-input");
                            }
                        }
                    }
                    let ok = pat.len() <= remain && pat[..] == f.bits[f.pos..f.pos + pat.len()];
                    let pcell = match from_input {
                        Some(v) => v,
                        None => if rng.flip() { obs.count("magic:pattern-is-slice"); crate::mon::c04::fresh_from_model(&pat, &mut rng) } else { bits_to_bitstr(&pat) },
                    };
                    args.push(Cell::Bitstr(pcell));
                    word = "magic".into();
                    if ok {
                        advance = pat.len();
                        want = Want::Value(format!("|{}|", pat.iter().map(|b| if *b == 1 { '1' } else { '0' }).collect::<String>()));
                    } else {
                        want = Want::Fail;
                    }
                }
                26 | 27 => {
                    let f = frames.last().unwrap();
                    let target: i128 = match rng.below(8) {
                        0 => f.lo as i128,
                        1 => (f.lo + f.bits.len()) as i128,
                        2 => (f.lo + f.bits.len()) as i128 + 1,
                        3 => f.lo as i128 - 1,
                        4 => hostile_size(&mut rng, remain),
                        _ => (f.lo + rng.below(f.bits.len() + 1)) as i128,
                    };
                    args.push(Cell::Int(target));
                    word = "seek".into();
                    if target >= f.lo as i128 && target <= (f.lo + f.bits.len()) as i128 {
                        seek_to = Some(target as usize - f.lo);
                        want = Want::Nothing;
                    } else {
                        want = Want::Fail;
                    }
                }
                28 | 29 => {
                    // find a byte pattern in what is left
                    let f = frames.last().unwrap();
                    let rest = &f.bits[f.pos..];
                    let nbytes = rest.len() / 8;
                    let pat: Vec<u8> = if nbytes > 0 && rng.chance(2, 3) {
                        let at = rng.below(nbytes);
                        let l = 1 + rng.below((nbytes - at).min(3));
                        rest[at * 8..(at + l) * 8].to_vec()
                    } else {
                        (0..8 * (1 + rng.below(2)) + if rng.chance(1, 6) { 3 } else { 0 }).map(|_| (rng.next_u64() & 1) as u8).collect()
                    };
                    let pcell = if rng.flip() { obs.count("find:pattern-is-slice"); crate::mon::c04::fresh_from_model(&pat, &mut rng) } else { bits_to_bitstr(&pat) };
                    args.push(Cell::Bitstr(pcell));
                    word = "find".into();
                    let aligned = (f.lo + f.pos) % 8 == 0 && rest.len() % 8 == 0;
                    if pat.len() % 8 != 0 {
                        want = Want::Fail;
                    } else if !aligned {
                        // searching is defined on whole bytes; an unaligned cursor is refused (or searched) - never moved
                        want = Want::Either(String::new());
                    } else {
                        let mut hit = None;
                        let pb = pat.len() / 8;
                        for at in 0..=nbytes.saturating_sub(pb) {
                            if nbytes >= pb && rest[at * 8..(at + pb) * 8] == pat[..] {
                                hit = Some(at);
                                break;
                            }
                        }
                        want = Want::Value(match hit {
                            Some(at) => format!("{}", f.lo + f.pos + at * 8),
                            None => "nil".into(),
                        });
                    }
                }
                30 => {
                    word = "remain".into();
                    want = Want::Value(format!("{}", remain));
                }
                31 => {
                    word = if rng.flip() { "big".into() } else { "little".into() };
                    big = word == "big";
                    want = Want::Nothing;
                }
                32 | 33 => {
                    // zero-terminated byte string
                    let f = frames.last().unwrap();
                    let rest = &f.bits[f.pos..];
                    word = if rng.flip() { "nulbytestr".into() } else { "cstr".into() };
                    if rest.len() % 8 != 0 {
                        want = Want::Fail;
                    } else {
                        let bytes: Vec<u8> = rest.chunks(8).map(|c| c.iter().fold(0u8, |a, b| (a << 1) | b)).collect();
                        let n = bytes.iter().position(|b| *b == 0).map(|p| p + 1).unwrap_or(bytes.len());
                        advance = n * 8;
                        want = Want::Value(if word == "cstr" {
                            let s: String = bytes[..n].iter().take_while(|b| **b != 0).map(|b| char::from_u32(*b as u32).unwrap()).collect();
                            format!("{:?}", s)
                        } else {
                            format!("|{}|", rest[..advance].iter().map(|b| if *b == 1 { '1' } else { '0' }).collect::<String>())
                        });
                    }
                }
                _ => {
                    // a non-integer / wrong-type size argument
                    args.push(crate::mon::c12::to_cell(&crate::mon::c12::gen_scalar(&mut rng), &mut None));
                    word = rng.pick_str(&["bits", "bytes", "seek", "int", "uint", "magic", "find", "open-bitstr"]).to_string();
                    let is_int = matches!(args[0], Cell::Int(_));
                    let is_bits = matches!(args[0], Cell::Bitstr(_));
                    if is_int || is_bits {
                        continue; // covered by the typed cases above
                    }
                    want = Want::Fail;
                }
            }
            // ---- run it
            let before_off = xs.get_var_value("offset").ok().map(show);
            let before_in = xs.get_var_value("input").ok().map(show);
            let sentinel = Cell::from("sentinel");
            let _ = xs.push_data(sentinel.clone());
            for a in &args {
                let _ = xs.push_data(a.clone());
            }
            // one word in eight runs with the data stack exactly full: a read that cannot push its result is a failing
            // read like any other (nothing moves)
            let tight = rng.chance(1, 8);
            let pushes = match &want {
                Want::Value(_) | Want::Either(_) => 1,
                _ => 0,
            };
            let want = if tight && pushes > args.len() {
                obs.count("reads_refused_by_a_full_stack");
                advance = 0;
                Want::Fail
            } else {
                want
            };
            if tight {
                let d = xs.verif_dump();
                let _ = xs.set_stack_limit(Some(d.data_hidden.len() + d.data_visible.len()));
            }
            log.push(format!("[{}] {} {}{}", step, args.iter().map(show).collect::<Vec<_>>().join(" "), word, if tight { "   (stack limit = current depth)" } else { "" }));
            if log.len() > 40 {
                log.remove(0);
            }
            let r = catch(|| xs.eval(&word));
            if tight {
                let _ = xs.set_stack_limit(Some(1_000));
            }
            obs.count(&format!("word:{}", word.trim_end_matches(|c: char| c.is_ascii_digit() || c == 'l' || c == 'e' || c == 'b').trim_end_matches(|c: char| c.is_ascii_digit())));
            let r = match r {
                Err((m, l)) => return self.fail(obs, idx, &word, "panic", &log, format!("panic {} at {}", m, normalise_loc(&l))),
                Ok(r) => r,
            };
            let depth = xs.data_depth();
            let stack: Vec<Cell> = (0..depth).rev().filter_map(|i| xs.get_data(i).cloned()).collect();
            let render = |c: &Cell| -> String {
                match c.value() {
                    Cell::Real(x) if x.is_nan() => "nan".into(),
                    v => show_untagged(v),
                }
            };
            let mut failed_ok = false;
            match (&want, &r) {
                (Want::Fail, Ok(())) => return self.fail(obs, idx, &word, "accepted", &log, format!("must be refused; stack now [{}]", show_vec(&stack))),
                (Want::Fail, Err(e)) => {
                    obs.count("failures_confirmed");
                    obs.see("failure_kinds", &format!("{}:{}", word, err_class(e)));
                    failed_ok = true;
                }
                (Want::Value(v), Ok(())) => {
                    if stack.len() != 2 || render(&stack[1]) != *v {
                        return self.fail(obs, idx, &word, "value", &log, format!("got [{}] expected sentinel {}", stack.iter().map(render).collect::<Vec<_>>().join(" "), v));
                    }
                }
                (Want::Nothing, Ok(())) => {
                    if stack.len() != 1 {
                        return self.fail(obs, idx, &word, "stack", &log, format!("stack [{}] expected only the sentinel", show_vec(&stack)));
                    }
                }
                (Want::Either(v), Ok(())) => {
                    if !v.is_empty() && (stack.len() != 2 || render(&stack[1]) != *v) {
                        return self.fail(obs, idx, &word, "value", &log, format!("got [{}] expected {}", stack.iter().map(render).collect::<Vec<_>>().join(" "), v));
                    }
                    obs.count("either:accepted");
                }
                (Want::Either(_), Err(_)) => {
                    obs.count("either:refused");
                    failed_ok = true;
                    advance = 0;
                }
                (Want::Value(_), Err(e)) | (Want::Nothing, Err(e)) => {
                    // close-bitstr with nothing opened by the case is allowed to fail (nothing to restore)
                    if word == "close-bitstr" && frames.is_empty() {
                        failed_ok = true;
                        pop_frame = false;
                    } else {
                        return self.fail(obs, idx, &word, "refused", &log, format!("a valid request was refused: {}", show_err(e)));
                    }
                }
            }
            if failed_ok {
                // nothing moved, the arguments are gone, everything below them is intact
                let off = xs.get_var_value("offset").ok().map(show);
                let inp = xs.get_var_value("input").ok().map(show);
                if off != before_off || inp != before_in {
                    return self.fail(obs, idx, &word, "failure-moved-cursor", &log, format!("offset {:?} -> {:?}, input changed: {}", before_off, off, inp != before_in));
                }
                if stack.is_empty() || show(&stack[0]) != show(&sentinel) || stack.len() > 1 + args.len() {
                    return self.fail(obs, idx, &word, "failure-touched-stack", &log, format!("stack after the failure: [{}]", show_vec(&stack)));
                }
                new_frame = None;
                pop_frame = false;
                seek_to = None;
                advance = 0;
                obs.count("nothing_moved_checks");
            }
            // clear the stack for the next step
            while xs.data_depth() > 0 {
                let _ = xs.pop_data();
            }
            // ---- update the model and compare the cursor
            if let Some(mut f) = new_frame {
                // the position of a freshly opened input is wherever its first bit sits in its buffer
                f.lo = xs.get_var_value("offset").ok().and_then(|c| c.to_usize().ok()).unwrap_or(0);
                frames.push(f);
                obs.maxi("max_open_depth", frames.len() as u64);
            } else if pop_frame {
                if frames.pop().is_some() {
                    obs.count("closes");
                }
            } else if let Some(p) = seek_to {
                frames.last_mut().unwrap().pos = p;
            } else if advance > 0 {
                frames.last_mut().unwrap().pos += advance;
            }
            if let Some(f) = frames.last() {
                let off = xs.get_var_value("offset").ok().and_then(|c| c.to_usize().ok());
                let inp = xs.get_var_value("input").ok().and_then(|c| c.bitstr().ok().map(|b| b.bits().collect::<Vec<u8>>()));
                if off != Some(f.lo + f.pos) {
                    return self.fail(obs, idx, &word, "offset", &log, format!("offset is {:?}, expected {} (input starts at {}, {} bits consumed)", off, f.lo + f.pos, f.lo, f.pos));
                }
                if inp.as_deref() != Some(&f.bits[..]) {
                    return self.fail(obs, idx, &word, "input", &log, format!("current input has {:?} bits, expected {}", inp.map(|b| b.len()), f.bits.len()));
                }
                let _ = catch(|| xs.eval("remain"));
                let rem = xs.get_data(0).map(show);
                while xs.data_depth() > 0 {
                    let _ = xs.pop_data();
                }
                if rem != Some(format!("{}", f.bits.len() - f.pos)) {
                    return self.fail(obs, idx, &word, "remain", &log, format!("remain is {:?}, expected {}", rem, f.bits.len() - f.pos));
                }
                obs.count("cursor_checks");
            }
        }
        obs.add("evaluations", 1);
        obs.shape(fnv1a(log.join("|").as_bytes()));
        if idx % 2999 == 0 {
            obs.sample(J::obj(vec![("ops", J::Arr(log.iter().take(10).map(|l| J::s(truncate(l, 120))).collect()))]));
        }
    }
    fn boot_mut(&mut self) -> Option<&mut Xstate> {
        Some(&mut self.boot)
    }
    fn describe(&mut self, idx: u64) -> String {
        format!("parsing-cursor sequence #{}", idx)
    }
}
