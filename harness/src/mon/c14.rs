//! C14 — resource limits are hard bounds and hitting one is recoverable.
//! Oracles: the monitor's own step counter (independent of the instruction meter), the dump hook after every step
//! (stack and heap sizes), boundary exactness against an unconstrained twin, metamorphic shift of the stack/heap
//! boundary by pre-existing items, and recovery probes with known effect after the limit is raised.
use super::Monitor;
use crate::g2::gen_g2;
use crate::mon::c01::gen_case;
use crate::mon::c15::{observation, truncate};
use crate::render::*;
use crate::util::*;
use crate::Args;
use xeh::prelude::*;

pub struct C14 {
    seed: u64,
    boot: Xstate,
}

impl C14 {
    pub fn new(a: &Args) -> C14 {
        let mut boot = Xstate::boot().expect("boot");
        boot.intercept_stdout(true);
        boot.intercept_output(true).expect("intercept output");
        boot.set_binary_input(Xbitstr::from(vec![1u8, 2, 3, 4, 5, 6, 7, 8, 9, 10, 11, 12, 13, 14, 15, 16])).expect("input");
        C14 { seed: a.seed, boot }
    }
}

fn is_limit(e: &Xerr, which: &str) -> bool {
    err_class(e) == format!("limit-{}", which)
}

fn total_stack(xs: &Xstate) -> usize {
    let d = xs.verif_dump();
    d.data_hidden.len() + d.data_visible.len()
}

/// programs whose data stack / heap grows through every growth path of the interpreter
fn growth_program(rng: &mut Rng, heap: bool) -> (String, Vec<&'static str>) {
    let mut s = String::new();
    let mut feats = vec![];
    let n = 1 + rng.below(5);
    for i in 0..n {
        let k = if heap { rng.below(8) + 14 } else { rng.below(14) };
        let (piece, f): (String, &'static str) = match k {
            0 => (format!("[ {} ] unbox", (0..rng.below(7)).map(|x| x.to_string()).collect::<Vec<_>>().join(" ")), "unbox"),
            1 => {
                let m = rng.below(5);
                (format!("{} {} collect", (0..m).map(|x| x.to_string()).collect::<Vec<_>>().join(" "), m), "collect")
            }
            2 => (format!(": gr{} dup 0 > if dup 1 - gr{} then ; {} gr{}", i, i, rng.below(7), i), "recursion"),
            3 => (format!("{} 0 do I loop", rng.below(7)), "do-loop-push"),
            4 => ("{ 1 \"a\" 2 \"b\" 3 \"c\" } foreach I loop".to_string(), "foreach-map"),
            5 => (format!("[ {} ] foreach I dup loop", (0..rng.below(4)).map(|x| x.to_string()).collect::<Vec<_>>().join(" ")), "foreach-vec"),
            6 => (format!("#( {} #)", (0..1 + rng.below(5)).map(|x| x.to_string()).collect::<Vec<_>>().join(" ")), "meta-results"),
            7 => ("#( 1 2 3 4 + + + #)".to_string(), "meta-peak-inside"),
            8 => ("1 dup dup over over".to_string(), "dup-over"),
            9 => (format!(": lc{} local a local b a b a b ; 1 2 lc{}", i, i), "locals"),
            10 => ("depth depth depth".to_string(), "depth"),
            11 => ("\"ab\" dup [ 1 ] dup length".to_string(), "mixed"),
            12 => ("drop".to_string(), "drop"),
            13 => ("1 2 + 3 * drop".to_string(), "arith"),
            14 => (format!("{} var hv{}_{}", rng.below(9), i, rng.below(3)), "var"),
            15 => (format!("[ 1 [ 2 3 ] 4 ] let [ la{} [ 2 lb{} ] & lr{} ]", i, i, i), "let-vec"),
            16 => (format!("{{ 10 \"k\" }} let {{ \"k\" lm{} }}", i), "let-map"),
            17 => (format!("7 let lp{}", i), "let-plain"),
            18 => (format!("100 ^{{ 5 \"five\" ^}} let ^ {{ \"five\" lt{}a }} lt{}b", i, i), "let-tags"),
            19 => (format!(": hd{} 1 local q q ; hd{}", i, i), "def-no-heap"),
            20 => (format!("{} var hv{}_0 hv{}_0 1 + ! hv{}_0", rng.below(9), i, i, i), "var-store"),
            _ => ("1 2 + drop".to_string(), "arith"),
        };
        s.push_str(&piece);
        s.push(' ');
        if !feats.contains(&f) {
            feats.push(f);
        }
    }
    (s, feats)
}

impl C14 {
    fn v(&self, obs: &mut Obs, idx: u64, class: &str, case: String, detail: String) {
        obs.violation(Violation { class: class.to_string(), sig: format!("C14:{}", class), index: idx, case, detail });
    }

    fn program(&self, idx: u64, rng: &mut Rng, obs: &mut Obs) -> (String, String) {
        match rng.below(4) {
            0 => {
                let c = gen_case("C14", self.seed, idx);
                (c.rendered.src, format!("g1:{}", c.profile))
            }
            1 => {
                let (s, _, f) = gen_g2(rng, 40, false);
                for x in &f {
                    obs.see("g2_features", x);
                }
                (s, "g2".into())
            }
            _ => {
                let (s, f) = growth_program(rng, false);
                for x in &f {
                    obs.see("growth_paths", x);
                }
                (s, "growth".into())
            }
        }
    }

    // ------------------------------------------------------------------ instruction limit
    fn insn_case(&mut self, idx: u64, obs: &mut Obs) {
        let mut rng = Rng::for_case("C14insn", self.seed, idx);
        let (src, kind) = self.program(idx, &mut rng, obs);
        let mut base = self.boot.clone();
        let _ = base.set_stack_limit(Some(20_000));
        if rng.flip() {
            base.set_recording_enabled(true);
            obs.count("insn:cases_with_recording");
        }
        if !matches!(catch(|| base.compile(&src)), Ok(Ok(()))) {
            obs.skipped += 1;
            obs.count("skipped:does-not-build");
            return;
        }
        // twin: unconstrained, stepped with the monitor's own counter
        const CAP: usize = 1500;
        let mut twin = base.clone();
        let _ = twin.set_insn_limit(None);
        let mut n = 0usize;
        let mut twin_err = None;
        while twin.is_running() && n < CAP {
            match catch(|| twin.next()) {
                Ok(Ok(())) => n += 1,
                Ok(Err(e)) => {
                    twin_err = Some(e);
                    break;
                }
                Err(_) => {
                    obs.skipped += 1;
                    obs.count("skipped:panic(C08)");
                    return;
                }
            }
        }
        let finished = !twin.is_running();
        let need_meter = twin.verif_dump().insn_meter;
        let twin_obs = observation(&mut twin, &Ok(match &twin_err {
            Some(e) => Err(e.clone()),
            None => Ok(()),
        }))
        .1;
        obs.count(if finished { "insn:twin-finished" } else if twin_err.is_some() { "insn:twin-fails" } else { "insn:twin-still-running-at-cap" });
        // limits to sweep: every small value, the boundary, random ones
        let mut limits: Vec<usize> = (0..=n.min(24)).collect();
        for d in [n.saturating_sub(1), n, n + 1, need_meter.saturating_sub(1), need_meter, need_meter + 1] {
            limits.push(d);
        }
        for _ in 0..6 {
            limits.push(rng.below(n + 2));
        }
        limits.sort();
        limits.dedup();
        for &lim in &limits {
            // --- step mode
            let mut xs = base.clone();
            let _ = xs.set_insn_limit(Some(lim));
            let mut k = 0usize;
            let mut outcome: Result<(), Xerr> = Ok(());
            while xs.is_running() && k <= lim + 5 && k < CAP {
                match catch(|| xs.next()) {
                    Ok(Ok(())) => k += 1,
                    Ok(Err(e)) => {
                        outcome = Err(e);
                        break;
                    }
                    Err((m, l)) => return self.v(obs, idx, "insn:panic", src.clone(), format!("limit {} step {}: panic {} at {}", lim, k, m, normalise_loc(&l))),
                }
            }
            obs.count("insn:limits_swept_step");
            if k > lim {
                return self.v(obs, idx, "insn:more-than-N-executed:step", src.clone(), format!("instruction limit {} set after compile; {} single steps succeeded (own counter)", lim, k));
            }
            match &outcome {
                Err(e) if is_limit(e, "insn") => {
                    obs.see("insn_limit_fired_at", &crate::mon::c02::insn_name(&xs, xs.ip()));
                    if lim >= need_meter && (finished || twin_err.is_some()) {
                        return self.v(obs, idx, "insn:refused-at-exact-need", src.clone(), format!("the unconstrained twin needs {} meter units ({} instructions); limit {} was refused after {} steps", need_meter, n, lim, k));
                    }
                    // the failing step must not make progress, and must keep failing
                    let before = crate::mon::c02::machine_state(&xs.verif_dump());
                    let again = catch(|| xs.next());
                    let after = crate::mon::c02::machine_state(&xs.verif_dump());
                    if !matches!(&again, Ok(Err(e2)) if is_limit(e2, "insn")) || before != after {
                        return self.v(obs, idx, "insn:progress-after-limit", src.clone(), format!("limit {}: a further next() after the limit error returned {:?} / state changed: {}", lim, again.map(|r| r.map_err(|e| show_err(&e))), before != after));
                    }
                    obs.count("insn:boundary_fail_confirmed");
                    // recovery: raise the limit, continue, reach the twin's end state
                    let _ = xs.set_insn_limit(Some(CAP * 4));
                    if finished || twin_err.is_some() {
                        let r = catch(|| xs.run());
                        let o = observation(&mut xs, &r).1;
                        if o != twin_obs {
                            return self.v(obs, idx, "insn:recovery", src.clone(), format!("limit {} hit after {} steps, then raised and run(): final observation differs from the unconstrained twin\ngot:\n{}\nwant:\n{}", lim, k, truncate(&o, 700), truncate(&twin_obs, 700)));
                        }
                        obs.count("insn:recoveries");
                    }
                }
                Err(e) => {
                    // the program's own failure: must be the twin's
                    if twin_err.as_ref().map(show_err) != Some(show_err(e)) {
                        return self.v(obs, idx, "insn:other-error", src.clone(), format!("limit {}: step {} failed with {}, twin: {:?}", lim, k, show_err(e), twin_err.as_ref().map(show_err)));
                    }
                }
                Ok(()) => {
                    if finished && !xs.is_running() {
                        if k != n {
                            return self.v(obs, idx, "insn:step-count", src.clone(), format!("limit {}: finished after {} steps, twin after {}", lim, k, n));
                        }
                        obs.count("insn:boundary_ok_confirmed");
                    }
                }
            }
            // --- run mode: the meter must never pass the limit, and the outcome must match the boundary
            let mut xr = base.clone();
            let _ = xr.set_insn_limit(Some(lim));
            let r = catch(|| xr.run());
            obs.count("insn:limits_swept_run");
            let meter = xr.verif_dump().insn_meter;
            if meter > lim {
                return self.v(obs, idx, "insn:meter-over-limit", src.clone(), format!("limit {}: meter shows {} after run()", lim, meter));
            }
            match r {
                Err((m, l)) => return self.v(obs, idx, "insn:panic", src.clone(), format!("limit {} run(): panic {} at {}", lim, m, normalise_loc(&l))),
                Ok(Ok(())) => {
                    if lim < n {
                        return self.v(obs, idx, "insn:more-than-N-executed:run", src.clone(), format!("limit {} but run() completed a program that needs {} instructions", lim, n));
                    }
                }
                Ok(Err(e)) if is_limit(&e, "insn") => {
                    if lim >= need_meter && (finished || twin_err.is_some()) {
                        return self.v(obs, idx, "insn:refused-at-exact-need", src.clone(), format!("run(): twin needs {} meter units; limit {} refused", need_meter, lim));
                    }
                    // the state must be one the stepped twin passes through within lim steps: re-step a fresh copy
                    let mut chk = base.clone();
                    let _ = chk.set_insn_limit(None);
                    let target = crate::mon::c02::machine_state(&xr.verif_dump());
                    let mut found = crate::mon::c02::machine_state(&chk.verif_dump()) == target;
                    let mut j = 0;
                    while !found && j < lim && chk.is_running() {
                        if chk.next().is_err() {
                            break;
                        }
                        j += 1;
                        found = crate::mon::c02::machine_state(&chk.verif_dump()) == target;
                    }
                    if !found {
                        return self.v(obs, idx, "insn:state-beyond-limit:run", src.clone(), format!("limit {}: the state run() stopped in is not reached by the stepped twin within {} instructions", lim, lim));
                    }
                    obs.count("insn:run_stop_states_located");
                    let _ = xr.set_insn_limit(Some(CAP * 4));
                    if finished || twin_err.is_some() {
                        let r2 = catch(|| xr.run());
                        let o = observation(&mut xr, &r2).1;
                        if o != twin_obs {
                            return self.v(obs, idx, "insn:recovery", src.clone(), format!("run() stopped by limit {}, raised, run() again: final observation differs from the twin\ngot:\n{}\nwant:\n{}", lim, truncate(&o, 700), truncate(&twin_obs, 700)));
                        }
                        obs.count("insn:recoveries");
                    }
                }
                Ok(Err(e)) => {
                    if twin_err.as_ref().map(show_err) != Some(show_err(&e)) {
                        return self.v(obs, idx, "insn:other-error", src.clone(), format!("limit {} run(): {}, twin: {:?}", lim, show_err(&e), twin_err.as_ref().map(show_err)));
                    }
                }
            }
        }
        obs.add("evaluations", 1);
        obs.shape(fnv1a(format!("insn:{}:{}", kind, src).as_bytes()));
        if idx % 1733 < 5 {
            obs.sample(J::obj(vec![("kind", J::s(format!("insn/{}", kind))), ("instructions", J::Int(n as i128)), ("limits_swept", J::Int(limits.len() as i128)), ("source", J::s(src))]));
        }
    }

    // ------------------------------------------------------------------ stack limit, step mode + boundary + recovery
    fn stack_case(&mut self, idx: u64, obs: &mut Obs) {
        let mut rng = Rng::for_case("C14stack", self.seed, idx);
        let (src, kind) = self.program(idx, &mut rng, obs);
        if src.contains("depth") || src.contains(".s") {
            // the program reads the stack depth: shifting the boundary is not meaning-preserving
            obs.count("stack:programs_reading_depth");
        }
        let mut base = self.boot.clone();
        let _ = base.set_insn_limit(Some(6000));
        // reverse-step recording takes other code paths for the same pushes
        if rng.flip() {
            base.set_recording_enabled(true);
            obs.count("stack:cases_with_recording");
        }
        // pre-existing items (they are hidden from nothing at top level, but count towards the limit)
        let pre = rng.below(4);
        for i in 0..pre {
            let _ = base.push_data(Cell::Int(1000 + i as i128));
        }
        if !matches!(catch(|| base.compile(&src)), Ok(Ok(()))) {
            obs.skipped += 1;
            obs.count("skipped:does-not-build");
            return;
        }
        let mut twin = base.clone();
        let mut peak = total_stack(&twin);
        // largest length reached by a step that made the stack grow: a push at that level certainly happened, so any
        // smaller limit must refuse it; `peak` additionally counts the items that were there before the limit was set
        let mut grow_peak = 0usize;
        let mut twin_res: Result<(), Xerr> = Ok(());
        let mut steps = 0;
        while twin.is_running() {
            let before = total_stack(&twin);
            match catch(|| twin.next()) {
                Ok(Ok(())) => {
                    steps += 1;
                    let after = total_stack(&twin);
                    peak = peak.max(after);
                    if after > before {
                        grow_peak = grow_peak.max(after);
                    }
                }
                Ok(Err(e)) => {
                    twin_res = Err(e);
                    break;
                }
                Err(_) => {
                    obs.skipped += 1;
                    obs.count("skipped:panic(C08)");
                    return;
                }
            }
        }
        if let Err(e) = &twin_res {
            if is_limit(e, "insn") {
                obs.skipped += 1;
                obs.count("skipped:twin-out-of-budget");
                return;
            }
        }
        let twin_obs = observation(&mut twin, &Ok(twin_res.clone())).1;
        obs.maxi("stack:max_peak", peak as u64);
        let start_len = total_stack(&base);
        let mut limits: Vec<usize> = vec![0, 1, peak.saturating_sub(2), peak.saturating_sub(1), peak, peak + 1, start_len, start_len.saturating_sub(1), grow_peak, grow_peak.saturating_sub(1)];
        for _ in 0..4 {
            limits.push(rng.below(peak + 2));
        }
        limits.sort();
        limits.dedup();
        for &lim in &limits {
            let mut xs = base.clone();
            let _ = xs.set_stack_limit(Some(lim));
            let bound = lim.max(start_len);
            let mut outcome: Result<(), Xerr> = Ok(());
            let mut last_insn = String::new();
            while xs.is_running() {
                last_insn = crate::mon::c02::insn_name(&xs, xs.ip());
                let r = catch(|| xs.next());
                let len = total_stack(&xs);
                obs.count("stack:steps_checked");
                if len > bound {
                    return self.v(obs, idx, "stack:over-limit", src.clone(), format!("stack limit {} (stack held {} when it was set): after executing {} the data stack holds {} items", lim, start_len, last_insn, len));
                }
                match r {
                    Ok(Ok(())) => {}
                    Ok(Err(e)) => {
                        outcome = Err(e);
                        break;
                    }
                    Err((m, l)) => return self.v(obs, idx, "stack:panic", src.clone(), format!("limit {}: panic {} at {} in {}", lim, m, normalise_loc(&l), last_insn)),
                }
            }
            obs.count("stack:limits_swept");
            match &outcome {
                Ok(()) => {
                    if lim < grow_peak {
                        return self.v(obs, idx, "stack:limit-not-enforced", src.clone(), format!("the program grows the stack to {} items, yet it completed under stack limit {}", grow_peak, lim));
                    }
                    let o = observation(&mut xs, &Ok(Ok(()))).1;
                    if o != twin_obs {
                        return self.v(obs, idx, "stack:result-under-sufficient-limit", src.clone(), format!("limit {} >= peak {}: observation differs from the unconstrained twin\ngot:\n{}\nwant:\n{}", lim, peak, truncate(&o, 600), truncate(&twin_obs, 600)));
                    }
                    obs.count("stack:boundary_ok_confirmed");
                }
                Err(e) if is_limit(e, "stack") => {
                    if lim >= peak {
                        return self.v(obs, idx, "stack:refused-at-exact-need", src.clone(), format!("peak is {} items; stack limit {} refused a push in {}", peak, lim, last_insn));
                    }
                    obs.see("stack_limit_fired_in", &last_insn);
                    obs.count("stack:boundary_fail_confirmed");
                    // recovery: raise the limit, a probe with known effect must work
                    let _ = xs.set_stack_limit(Some(20_000));
                    let _ = xs.set_insn_limit(Some(6000));
                    let d0 = total_stack(&xs);
                    let r = catch(|| xs.eval("41 1 +"));
                    let top = xs.get_data(0).cloned();
                    if !matches!(r, Ok(Ok(()))) || total_stack(&xs) != d0 + 1 || top.as_ref().map(show) != Some("42".to_string()) {
                        return self.v(obs, idx, "stack:recovery", src.clone(), format!("after the stack-limit error (limit {}) the limit was raised; probe `41 1 +` gave {:?}, depth {} -> {}, top {:?}", lim, r.map(|x| x.map_err(|e| show_err(&e))), d0, total_stack(&xs), top.as_ref().map(show)));
                    }
                    obs.count("stack:recoveries");
                }
                Err(e) => {
                    // the program's own error (the twin must fail the same way) - possible when lim >= what it needs up to there
                    if twin_res.as_ref().err().map(show_err) != Some(show_err(e)) {
                        return self.v(obs, idx, "stack:other-error", src.clone(), format!("limit {}: {} in {}; twin: {:?}", lim, show_err(e), last_insn, twin_res.as_ref().err().map(show_err)));
                    }
                }
            }
        }
        let _ = steps;
        obs.add("evaluations", 1);
        obs.shape(fnv1a(format!("stack:{}:{}:{}", kind, pre, src).as_bytes()));
        if idx % 1733 < 5 {
            obs.sample(J::obj(vec![("kind", J::s(format!("stack/{}", kind))), ("peak", J::Int(peak as i128)), ("pre_existing_items", J::Int(pre as i128)), ("source", J::s(src))]));
        }
    }

    // ------------------------------------------------------------------ stack limit through eval (build-time meta blocks), metamorphic shift
    fn stack_shift_case(&mut self, idx: u64, obs: &mut Obs) {
        let mut rng = Rng::for_case("C14shift", self.seed, idx);
        let (src, feats) = growth_program(&mut rng, false);
        if src.contains("depth") {
            obs.count("shift:regenerated_without_depth");
        }
        let src = src.replace("depth depth depth", "1 2 3");
        for f in &feats {
            obs.see("growth_paths", f);
        }
        let recording = rng.flip();
        if recording {
            obs.count("shift:cases_with_recording");
        }
        let outcome = |boot: &Xstate, pre: usize, lim: usize, compile_run: bool| -> Result<(String, usize), String> {
            let mut xs = boot.clone();
            let _ = xs.set_insn_limit(Some(8000));
            xs.set_recording_enabled(recording);
            for i in 0..pre {
                let _ = xs.push_data(Cell::Int(1000 + i as i128));
            }
            let _ = xs.set_stack_limit(Some(lim));
            let r = catch(|| {
                if compile_run {
                    xs.compile(&src)?;
                    xs.run()
                } else {
                    xs.eval(&src)
                }
            });
            let len = total_stack(&xs);
            match r {
                Err((m, l)) => Err(format!("panic {} at {}", m, normalise_loc(&l))),
                Ok(Ok(())) => Ok(("ok".to_string(), len)),
                Ok(Err(e)) => Ok((err_class(&e), len)),
            }
        };
        let style = rng.flip();
        // exact need on an empty stack: smallest limit under which the source succeeds
        let mut need = None;
        for lim in 0..40 {
            match outcome(&self.boot, 0, lim, style) {
                Err(p) => return self.v(obs, idx, "shift:panic", src.clone(), p),
                Ok((o, len)) => {
                    obs.count("shift:evals");
                    if len > lim {
                        return self.v(obs, idx, "shift:over-limit", src.clone(), format!("stack limit {} on an empty stack: {} items after the evaluation ({})", lim, len, o));
                    }
                    if o == "ok" {
                        need = Some(lim);
                        break;
                    } else if o != "limit-stack" {
                        // the program fails by itself below this limit? then it is not a pure growth program
                        obs.count("shift:own-error");
                        return;
                    }
                }
            }
        }
        let need = match need {
            Some(n) => n,
            None => {
                obs.count("shift:needs-more-than-40");
                return;
            }
        };
        // monotone: every limit above the need succeeds
        for lim in [need + 1, need + 7] {
            match outcome(&self.boot, 0, lim, style) {
                Ok((o, _)) if o == "ok" => {}
                other => return self.v(obs, idx, "shift:not-monotone", src.clone(), format!("succeeds with limit {} but limit {} gives {:?}", need, lim, other)),
            }
        }
        // shift: with d items already on the stack the boundary moves by exactly d
        for pre in [1usize, 2, 5] {
            for (lim, want_ok) in [(need + pre, true), (need + pre - 1, false)] {
                if need == 0 && !want_ok {
                    continue;
                }
                match outcome(&self.boot, pre, lim, style) {
                    Err(p) => return self.v(obs, idx, "shift:panic", src.clone(), p),
                    Ok((o, len)) => {
                        obs.count("shift:evals");
                        if len > lim.max(pre) {
                            return self.v(obs, idx, "shift:over-limit", src.clone(), format!("{} items were on the stack, stack limit {}: {} items afterwards ({})", pre, lim, len, o));
                        }
                        if want_ok && o != "ok" {
                            return self.v(obs, idx, "shift:refused-at-exact-need", src.clone(), format!("needs {} items on an empty stack; with {} items already there limit {} gives {}", need, pre, lim, o));
                        }
                        if !want_ok && o != "limit-stack" {
                            return self.v(obs, idx, "shift:limit-not-enforced", src.clone(), format!("needs {} items on an empty stack; with {} items already there limit {} should be refused, got {}", need, pre, lim, o));
                        }
                        obs.count(if want_ok { "shift:boundary_ok_confirmed" } else { "shift:boundary_fail_confirmed" });
                    }
                }
            }
        }
        obs.add("evaluations", 1);
        obs.shape(fnv1a(format!("shift:{}:{}", style, src).as_bytes()));
        if idx % 1733 < 5 {
            obs.sample(J::obj(vec![("kind", J::s("stack-shift")), ("need", J::Int(need as i128)), ("style", J::s(if style { "compile+run" } else { "eval" })), ("source", J::s(src))]));
        }
    }

    // ------------------------------------------------------------------ heap limit
    fn heap_case(&mut self, idx: u64, obs: &mut Obs) {
        let mut rng = Rng::for_case("C14heap", self.seed, idx);
        let (src, feats) = growth_program(&mut rng, true);
        for f in &feats {
            obs.see("heap_growth_paths", f);
        }
        let mut base = self.boot.clone();
        let _ = base.set_insn_limit(Some(8000));
        if rng.flip() {
            base.set_recording_enabled(true);
            obs.count("heap:cases_with_recording");
        }
        // some interpreters already own extra cells
        let extra = rng.below(4);
        for i in 0..extra {
            let _ = base.defvar(Xstr::from(format!("pre{}", i)), Cell::Int(i as i128));
        }
        let b = base.verif_dump().heap.len();
        let mut twin = base.clone();
        let r = catch(|| twin.eval(&src));
        if !matches!(r, Ok(Ok(()))) {
            obs.skipped += 1;
            obs.count("skipped:heap-program-fails");
            return;
        }
        let h = twin.verif_dump().heap.len() - b;
        let twin_obs = observation(&mut twin, &r).1;
        obs.maxi("heap:max_new_cells", h as u64);
        let mut limits: Vec<usize> = vec![0, 1, b.saturating_sub(2), b.saturating_sub(1), b, b + 1, b + h, b + h + 1];
        if h > 0 {
            limits.push(b + h - 1);
            limits.push(b + rng.below(h));
        }
        limits.sort();
        limits.dedup();
        for &lim in &limits {
            for api in [false, true] {
                let mut xs = base.clone();
                let _ = xs.set_heap_limit(Some(lim));
                obs.count("heap:limits_swept");
                if api {
                    // allocation through the host API (defvar)
                    let mut ok = 0usize;
                    for i in 0..h + 2 {
                        // named and nameless cells (the latter is what host objects such as mapped files use)
                        let anonymous = (i + lim) % 3 == 2;
                        let r = catch(|| if anonymous { xs.defvar_anonymous(Cell::Int(i as i128)) } else { xs.defvar(Xstr::from(format!("api{}", i)), Cell::Int(i as i128)) });
                        let len = xs.verif_dump().heap.len();
                        if len > lim.max(b) {
                            return self.v(obs, idx, "heap:over-limit", format!("defvar x{} on a heap of {} cells", h + 2, b), format!("heap limit {}: heap holds {} cells after defvar #{}", lim, len, i));
                        }
                        match r {
                            Ok(Ok(_)) => {
                                ok += 1;
                                if b + ok > lim {
                                    return self.v(obs, idx, "heap:limit-not-enforced", format!("defvar on a heap of {} cells", b), format!("heap limit {}: defvar #{} succeeded ({} cells)", lim, i, len));
                                }
                            }
                            Ok(Err(e)) if is_limit(&e, "heap") => {
                                if b + ok < lim {
                                    return self.v(obs, idx, "heap:refused-below-limit", format!("defvar on a heap of {} cells", b), format!("heap limit {}: defvar refused with only {} cells", lim, len));
                                }
                                // the refused definition did not happen: its name stays unknown, also after the limit
                                // is raised and other variables are allocated
                                let refused = format!("api{}", i);
                                let _ = xs.set_heap_limit(Some(len + 8));
                                let r2 = catch(|| xs.defvar(Xstr::from("after_raise"), Cell::Int(77)));
                                if !matches!(r2, Ok(Ok(_))) || xs.get_var_value("after_raise").ok().map(show) != Some("77".to_string()) {
                                    return self.v(obs, idx, "heap:recovery", format!("defvar on a heap of {} cells", b), format!("heap limit {} refused defvar #{}; limit raised to {}; a further defvar failed", lim, i, len + 8));
                                }
                                let _ = catch(|| xs.eval(&format!("5 ! {}", refused)));
                                let seen = xs.get_var_value(&refused).ok().map(show);
                                let probe = xs.get_var_value("after_raise").ok().map(show);
                                if seen.is_some() || probe != Some("77".to_string()) {
                                    return self.v(obs, idx, "heap:refused-definition-left-behind", format!("defvar on a heap of {} cells, limit {}", b, lim), format!("defvar {} was refused by the heap limit, yet afterwards the name resolves to {:?}; variable after_raise (77) now reads {:?}", refused, seen, probe));
                                }
                                obs.count("heap:refused_definitions_checked");
                                break;
                            }
                            other => return self.v(obs, idx, "heap:api-error", "defvar".into(), format!("{:?}", other.map(|r| r.map(|_| ()).map_err(|e| show_err(&e))))),
                        }
                    }
                    obs.count("heap:api_sequences");
                    continue;
                }
                let r = catch(|| xs.eval(&src));
                let len = xs.verif_dump().heap.len();
                if len > lim.max(b) {
                    return self.v(obs, idx, "heap:over-limit", src.clone(), format!("heap limit {} (heap held {} cells when it was set): {} cells after the evaluation", lim, b, len));
                }
                match r {
                    Err((m, l)) => return self.v(obs, idx, "heap:panic", src.clone(), format!("limit {}: panic {} at {}", lim, m, normalise_loc(&l))),
                    Ok(Ok(())) => {
                        if h > 0 && lim < b + h {
                            return self.v(obs, idx, "heap:limit-not-enforced", src.clone(), format!("the source allocates {} cells on a heap of {}; it succeeded under heap limit {}", h, b, lim));
                        }
                        let o = observation(&mut xs, &Ok(Ok(()))).1;
                        if o != twin_obs {
                            return self.v(obs, idx, "heap:result-under-sufficient-limit", src.clone(), format!("limit {}: observation differs from the twin\ngot:\n{}\nwant:\n{}", lim, truncate(&o, 500), truncate(&twin_obs, 500)));
                        }
                        obs.count("heap:boundary_ok_confirmed");
                    }
                    Ok(Err(e)) if is_limit(&e, "heap") => {
                        if lim >= b + h {
                            return self.v(obs, idx, "heap:refused-at-exact-need", src.clone(), format!("needs {} new cells on a heap of {}; heap limit {} refused", h, b, lim));
                        }
                        obs.count("heap:boundary_fail_confirmed");
                        // recovery through the host API (a source-level probe would also measure how a failed build is
                        // cleaned up, which is C10's subject)
                        let _ = xs.set_heap_limit(Some(b + h + 50));
                        let r2 = catch(|| xs.defvar(Xstr::from("probe_cell"), Cell::Int(77)));
                        let ok = matches!(r2, Ok(Ok(_))) && xs.get_var_value("probe_cell").ok().map(show) == Some("77".to_string());
                        if !ok {
                            return self.v(obs, idx, "heap:recovery", src.clone(), format!("after the heap-limit error (limit {}) the limit was raised; defvar probe failed", lim));
                        }
                        obs.count("heap:recoveries");
                    }
                    Ok(Err(e)) => return self.v(obs, idx, "heap:other-error", src.clone(), format!("limit {}: {} (twin succeeded)", lim, show_err(&e))),
                }
            }
        }
        obs.add("evaluations", 1);
        obs.shape(fnv1a(format!("heap:{}:{}", extra, src).as_bytes()));
        if idx % 1733 < 5 {
            obs.sample(J::obj(vec![("kind", J::s("heap")), ("cells_before", J::Int(b as i128)), ("new_cells", J::Int(h as i128)), ("source", J::s(src))]));
        }
    }

    // ------------------------------------------------------------------ limits changed between evaluations: invariants only
    fn session_case(&mut self, idx: u64, obs: &mut Obs) {
        let mut rng = Rng::for_case("C14session", self.seed, idx);
        let mut xs = self.boot.clone();
        let _ = xs.set_insn_limit(Some(3000));
        if rng.flip() {
            xs.set_recording_enabled(true);
            obs.count("session:cases_with_recording");
        }
        let (mut n_lim, mut s_lim, mut h_lim): (Option<usize>, Option<usize>, Option<usize>) = (Some(3000), None, None);
        let mut since_set = 0usize; // instructions executed since the instruction limit was last set (own counter)
        let mut hist = vec![];
        let mut s_base = total_stack(&xs);
        let mut h_base = xs.verif_dump().heap.len();
        for _ in 0..6 + rng.below(10) {
            match rng.below(6) {
                0 => {
                    n_lim = if rng.chance(1, 6) { None } else { Some(rng.below(120)) };
                    let _ = xs.set_insn_limit(n_lim);
                    since_set = 0;
                    hist.push(format!("set_insn_limit({:?})", n_lim));
                }
                1 => {
                    s_lim = if rng.chance(1, 6) { None } else { Some(rng.below(12)) };
                    let _ = xs.set_stack_limit(s_lim);
                    s_base = total_stack(&xs);
                    hist.push(format!("set_stack_limit({:?}) with {} items on the stack", s_lim, s_base));
                }
                2 => {
                    let cur = xs.verif_dump().heap.len();
                    h_lim = if rng.chance(1, 6) { None } else { Some((cur + rng.below(6)).saturating_sub(2)) };
                    let _ = xs.set_heap_limit(h_lim);
                    h_base = cur;
                    hist.push(format!("set_heap_limit({:?}) with {} cells", h_lim, h_base));
                }
                _ => {
                    let heapy = rng.chance(1, 3);
                    let (src, _) = growth_program(&mut rng, heapy);
                    // a self-contained source is compiled, then stepped with the monitor's own counter
                    hist.push(format!("compile+step {:?}", src));
                    let built = catch(|| xs.compile(&src));
                    match built {
                        Err((m, l)) => return self.v(obs, idx, "session:panic", hist.join("\n"), format!("panic {} at {}", m, normalise_loc(&l))),
                        Ok(Err(_)) => {
                            // a build that is refused (heap limit, or leftovers of an earlier refusal) ends the session:
                            // what happens next is C10's subject
                            obs.count("session:ended_by_build_error");
                            break;
                        }
                        Ok(Ok(())) => {}
                    }
                    let mut guard = 0;
                    while xs.is_running() && guard < 4000 {
                        guard += 1;
                        let r = catch(|| xs.next());
                        let d = xs.verif_dump();
                        let sl = d.data_hidden.len() + d.data_visible.len();
                        obs.count("session:steps_checked");
                        if let Some(s) = s_lim {
                            if sl > s.max(s_base) {
                                return self.v(obs, idx, "session:stack-over-limit", hist.join("\n"), format!("stack limit {:?} (set with {} items): {} items", s_lim, s_base, sl));
                            }
                        }
                        if let Some(h) = h_lim {
                            if d.heap.len() > h.max(h_base) {
                                return self.v(obs, idx, "session:heap-over-limit", hist.join("\n"), format!("heap limit {:?} (set with {} cells): {} cells", h_lim, h_base, d.heap.len()));
                            }
                        }
                        match r {
                            Err((m, l)) => return self.v(obs, idx, "session:panic", hist.join("\n"), format!("panic {} at {}", m, normalise_loc(&l))),
                            Ok(Ok(())) => {
                                since_set += 1;
                                if let Some(n) = n_lim {
                                    if since_set > n {
                                        return self.v(obs, idx, "session:more-than-N-executed", hist.join("\n"), format!("{} instructions executed since set_insn_limit({})", since_set, n));
                                    }
                                }
                            }
                            Ok(Err(e)) => {
                                obs.see("session_errors", &err_class(&e));
                                break;
                            }
                        }
                    }
                    if xs.is_running() {
                        // stopped by an error mid-program: later sources would resume it; end the session here
                        obs.count("session:ended_by_runtime_error");
                        break;
                    }
                }
            }
        }
        obs.add("evaluations", 1);
        obs.shape(fnv1a(hist.join("|").as_bytes()));
        if idx % 1733 < 5 {
            obs.sample(J::obj(vec![("kind", J::s("session")), ("history", J::Arr(hist.iter().take(10).map(|h| J::s(h.clone())).collect()))]));
        }
    }
}

impl C14 {
    // ------------------------------------------------------------------ one instruction budget across several sources
    /// Every tick (`"x" print`) costs at least two instructions (load the string, call print), wherever it executes: at
    /// top level, inside a meta block at build time, in an immediate word, in a source that is rejected afterwards. So
    /// after set_insn_limit(N) at most N/2 ticks can ever be printed, however often sources are resubmitted.
    fn budget_case(&mut self, idx: u64, obs: &mut Obs) {
        let mut rng = Rng::for_case("C14budget", self.seed, idx);
        let mut xs = self.boot.clone();
        let _ = xs.set_stack_limit(Some(500));
        if rng.flip() {
            xs.set_recording_enabled(true);
        }
        let _ = xs.eval(": imm-ticks immediate 5 0 do \"x\" print loop ;");
        let _ = xs.read_stdout();
        let n = *rng.pick(&[0usize, 1, 2, 3, 7, 20, 50, 120, 400]);
        let _ = xs.set_insn_limit(Some(n));
        let mut hist = vec![format!("set_insn_limit({})", n)];
        let mut ticks = 0usize;
        let mut rejected = 0;
        let mut last: Option<String> = None;
        for _ in 0..3 + rng.below(8) {
            let k = 1 + rng.below(40);
            let src = if last.is_some() && rng.chance(1, 3) {
                // resubmit the previous source as it is
                last.clone().unwrap()
            } else {
                match rng.below(9) {
                    0 => format!("{} 0 do \"x\" print loop", k),
                    1 => format!("#( {} 0 do \"x\" print loop #)", k),
                    2 => format!("#( {} 0 do \"x\" print loop #) no-such-word", k),
                    3 => "#( begin \"x\" print false until #)".to_string(),
                    4 => "imm-ticks no-such-word".to_string(),
                    5 => format!(": t{} #( {} 0 do \"x\" print loop 1 #) ; t{} no-such-word", k, k, k),
                    6 => format!("[ #( {} 0 do \"x\" print loop #) ] ]", k),
                    7 => format!("[ 1 2 3 ] foreach \"x\" print loop #( \"x\" print #) then", ),
                    _ => format!("#( : w{} \"x\" print ; {} 0 do w{} loop #) 1 +", k, k, k),
                }
            };
            let r = catch(|| xs.eval(&src));
            let out = xs.read_stdout().unwrap_or_default();
            let t = out.matches('x').count();
            ticks += t;
            let res = match &r {
                Err((m, l)) => return self.v(obs, idx, "budget:panic", hist.join("\n"), format!("panic {} at {}", m, normalise_loc(l))),
                Ok(Ok(())) => "ok".to_string(),
                Ok(Err(e)) => {
                    if !is_limit(e, "insn") {
                        rejected += 1;
                    }
                    err_class(e)
                }
            };
            hist.push(format!("eval {:?} -> {} ({} ticks)", src, res, t));
            obs.count("budget:sources");
            obs.see("budget_outcomes", &res);
            if 2 * ticks > n {
                return self.v(obs, idx, "budget:more-than-N-executed", hist.join("\n"), format!("{} ticks of at least two instructions each were printed after set_insn_limit({})", ticks, n));
            }
            last = Some(src);
        }
        if rejected > 0 {
            obs.count("budget:sessions_with_rejected_source");
        }
        obs.add("budget:ticks", ticks as u64);
        obs.add("evaluations", 1);
        obs.shape(fnv1a(hist.join("|").as_bytes()));
        if idx % 1733 < 6 {
            obs.sample(J::obj(vec![("kind", J::s("budget")), ("history", J::Arr(hist.iter().take(8).map(|h| J::s(h.clone())).collect()))]));
        }
    }
}

impl C14 {
    /// the instruction budget is not refunded by stepping backwards: with recording on, any interleaving of next() and
    /// rnext() executes at most N instructions forward (own counter) after set_insn_limit(N)
    fn rewind_budget_case(&mut self, idx: u64, obs: &mut Obs) {
        let mut rng = Rng::for_case("C14rewind", self.seed, idx);
        let (src, kind) = self.program(idx, &mut rng, obs);
        let mut xs = self.boot.clone();
        let _ = xs.set_stack_limit(Some(20_000));
        xs.set_recording_enabled(true);
        if !matches!(catch(|| xs.compile(&src)), Ok(Ok(()))) {
            obs.skipped += 1;
            obs.count("skipped:does-not-build");
            return;
        }
        let n = *rng.pick(&[0usize, 1, 2, 3, 5, 8, 13, 40]);
        let _ = xs.set_insn_limit(Some(n));
        let mut forward = 0usize;
        let mut back = 0usize;
        let mut trail = String::new();
        for _ in 0..6 * n + 30 {
            if !xs.is_running() {
                break;
            }
            if rng.chance(2, 5) {
                match catch(|| xs.rnext()) {
                    Err((m, l)) => return self.v(obs, idx, "rewind:panic", src.clone(), format!("panic {} at {}", m, normalise_loc(&l))),
                    _ => {
                        back += 1;
                        trail.push('<');
                    }
                }
            } else {
                match catch(|| xs.next()) {
                    Err((m, l)) => return self.v(obs, idx, "rewind:panic", src.clone(), format!("panic {} at {}", m, normalise_loc(&l))),
                    Ok(Ok(())) => {
                        forward += 1;
                        trail.push('>');
                    }
                    Ok(Err(e)) => {
                        trail.push('x');
                        if !is_limit(&e, "insn") {
                            // the program's own failure: stepping on is outside the statement
                            break;
                        }
                    }
                }
            }
            if forward > n {
                return self.v(obs, idx, "rewind:more-than-N-executed", src.clone(), format!("instruction limit {}: {} instructions executed forward (own count) in the walk {} ('>' step, '<' reverse step, 'x' refused)", n, forward, trail));
            }
        }
        obs.count("rewind:walks");
        obs.add("rewind:reverse_steps", back as u64);
        obs.add("evaluations", 1);
        obs.shape(fnv1a(format!("rewind:{}:{}:{}", kind, n, src).as_bytes()));
    }
}

impl Monitor for C14 {
    fn run_case(&mut self, idx: u64, obs: &mut Obs) {
        match idx % 6 {
            0 => self.insn_case(idx, obs),
            1 => self.stack_case(idx, obs),
            2 => self.stack_shift_case(idx, obs),
            3 => self.heap_case(idx, obs),
            4 => {
                if (idx / 6) % 3 == 0 {
                    self.rewind_budget_case(idx, obs)
                } else {
                    self.budget_case(idx, obs)
                }
            }
            _ => self.session_case(idx, obs),
        }
    }
    fn describe(&mut self, idx: u64) -> String {
        format!("resource-limit case #{} kind {}", idx, ["insn", "stack", "stack-shift", "heap", "budget", "session"][(idx % 6) as usize])
    }
}
