//! C03 — a cloned interpreter is an independent snapshot; re-running it is deterministic.
//! Oracles: (a) immutability — the full state rendering of every copy/snapshot that was NOT operated on must be
//! string-identical after every operation on any other copy; (b) determinism — the operations the original executed
//! after a clone point are replayed on the pristine snapshot taken at that point and must give identical
//! observations and an identical final state.
use super::Monitor;
use crate::g2::gen_g2;
use crate::mon::c02::machine_state;
use crate::mon::c15::{observation, truncate};
use crate::render::*;
use crate::util::*;
use crate::Args;
use xeh::prelude::*;

pub struct C03 {
    seed: u64,
    boot: Xstate,
    boot_d2: Xstate,
    mode: String,
}

const PRELUDE: &str = "|12 34 56 78 9A BC DE F0 0F| var b0  |F0 E1 D2 C3 B4 A5x.x| var b1  || var b2  |FF 00 FF| var b3
[ 1 2 3 ] var v0  [ \"a\" |0F 1E| [ 4 5 ] ] var v1  { 1 \"k\" [ 2 ] \"v\" } var m0  { } var m1
7 var n0  \"str\" var s0
: w0 1 ; : w1 b0 bitstr-not ; : w2 local a a a + ;
late lt0 : u0 lt0 ; late lt1 : u1 lt1 1 + ;";

impl C03 {
    pub fn new(a: &Args) -> C03 {
        let mut boot = Xstate::boot().expect("boot");
        boot.intercept_stdout(true);
        boot.intercept_output(true).expect("intercept output");
        boot.set_binary_input(Xbitstr::from(vec![0x10u8, 0x32, 0x54, 0x76, 0x98, 0xba, 0xdc, 0xfe, 0x01, 0x23, 0x45, 0x67, 0x89, 0xab, 0xcd, 0xef])).expect("input");
        boot.eval(PRELUDE).expect("prelude");
        let _ = boot.read_stdout();
        let mut boot_d2 = boot.clone();
        xeh::d2_plugin::load(&mut boot_d2).expect("d2");
        boot_d2.eval("4 3 d2-resize").expect("d2 resize");
        C03 { seed: a.seed, boot, boot_d2, mode: a.mode.clone() }
    }
}

#[derive(Clone, Debug)]
enum Op {
    Eval(String),
    CompileRun(String),
    /// compile, k forward steps, j backward steps (when recording), then run to the end
    Steps(String, usize, usize),
    SetInput(Vec<u8>),
    Recording(bool),
}

impl Op {
    fn show(&self) -> String {
        match self {
            Op::Eval(s) => format!("eval {:?}", s),
            Op::CompileRun(s) => format!("compile+run {:?}", s),
            Op::Steps(s, k, j) => format!("compile {:?}; {}x next; {}x rnext; run", s, k, j),
            Op::SetInput(b) => format!("set_binary_input {:02x?}", b),
            Op::Recording(b) => format!("set_recording_enabled({})", b),
        }
    }
    fn kind(&self) -> &'static str {
        match self {
            Op::Eval(_) => "eval",
            Op::CompileRun(_) => "compile+run",
            Op::Steps(..) => "step",
            Op::SetInput(_) => "set-input",
            Op::Recording(_) => "recording",
        }
    }
}

/// complete rendering of an interpreter: machine state, evaluation bookkeeping, dictionary, code, canvas
pub fn full_state(xs: &mut Xstate, with_d2: bool) -> Vec<(&'static str, String)> {
    let d = xs.verif_dump();
    let mut v = machine_state(&d);
    v.push(("bookkeeping", format!("mode={} nested={} flows={} inputs={:?} sources={} meter={} revlog={:?} marks={:?}", d.mode, d.nested, d.flow_len, d.input_unread, d.sources_len, d.insn_meter, d.reverse_log_len, d.ctx_marks)));
    let mut dict = String::new();
    for (n, k) in xs.verif_dict() {
        dict.push_str(n.as_str());
        dict.push(':');
        dict.push_str(k);
        dict.push(' ');
    }
    v.push(("dictionary", dict));
    let mut code = String::new();
    for op in xs.bytecode() {
        use std::fmt::Write;
        match op {
            // literal cells are rendered bit-exactly (they may share buffers with other copies)
            _ => {
                let s = format!("{:?}", op);
                if s.starts_with("LoadCell") {
                    code.push_str("LoadCell ");
                } else {
                    let _ = write!(code, "{} ", s);
                }
            }
        }
    }
    v.push(("code", code));
    if let Some(log) = xs.reverse_log.as_ref() {
        v.push(("reverse-log", format!("{:?}", log)));
    } else {
        v.push(("reverse-log", String::new()));
    }
    if with_d2 {
        let mut buf = Vec::new();
        let c = match xeh::d2_plugin::copy_rgba_data(xs, &mut buf) {
            Ok((w, h)) => format!("{}x{} {:02x?}", w, h, buf),
            Err(e) => format!("unreadable {:?}", e),
        };
        v.push(("canvas", c));
    } else {
        v.push(("canvas", String::new()));
    }
    v
}

fn diff(a: &[(&'static str, String)], b: &[(&'static str, String)]) -> Option<(&'static str, String, String)> {
    for (x, y) in a.iter().zip(b.iter()) {
        if x.1 != y.1 {
            return Some((x.0, x.1.clone(), y.1.clone()));
        }
    }
    None
}

struct Copy {
    xs: Xstate,
    last: Vec<(&'static str, String)>,
    log: Vec<(Op, String)>,
    alive: bool,
    origin: String,
}

struct Snap {
    xs: Xstate,
    state: Vec<(&'static str, String)>,
    of: usize,
    at: usize,
}

fn bits_lit(rng: &mut Rng) -> String {
    let mut s = String::from("|");
    for _ in 0..rng.below(5) {
        s.push_str(&format!("{:02X} ", rng.below(256)));
    }
    for _ in 0..rng.below(8) {
        s.push(if rng.flip() { 'x' } else { '.' });
    }
    s.push('|');
    s
}

/// one statement that shares storage and then mutates it; only names from the prelude are used, so it always builds
fn sharing_stmt(rng: &mut Rng, d2: bool) -> (String, &'static str) {
    let b = |rng: &mut Rng| format!("b{}", rng.below(4));
    let v = |rng: &mut Rng| format!("v{}", rng.below(2));
    let m = |rng: &mut Rng| format!("m{}", rng.below(2));
    let k = rng.below(if d2 { 38 } else { 34 });
    match k {
        0 => (format!("{} {} bitstr-append ! {}", b(rng), bits_lit(rng), b(rng)), "append-literal"),
        1 => (format!("{} {} bitstr-append ! {}", b(rng), b(rng), b(rng)), "append-var"),
        2 => (format!("{} bitstr-not ! {}", b(rng), b(rng)), "invert"),
        3 => (format!("{} open-bitstr {} bits ! {} {} bits drop close-bitstr", b(rng), rng.below(20), b(rng), rng.below(9)), "slice-of-var"),
        4 => (format!("{} {} bitstr-{} ! {}", b(rng), b(rng), rng.pick(&["xor", "and", "or"]), b(rng)), "zip"),
        5 => (format!("{} emit", b(rng)), "emit"),
        6 => (format!("output ! {} {} emit", b(rng), bits_lit(rng)), "output-alias"),
        7 => (format!("[ {} 1 \"ab\" {} ] >bitstr ! {}", b(rng), b(rng), b(rng)), ">bitstr"),
        8 => (format!("{} {} push ! {}", rng.range(-9, 99), v(rng), v(rng)), "vec-push"),
        9 => (format!("{} reverse ! {}", v(rng), v(rng)), "vec-reverse"),
        10 => (format!("{} {} push ! {}", b(rng), v(rng), v(rng)), "vec-push-bitstr"),
        11 => (format!("{} {} \"{}\" insert ! {}", m(rng), rng.range(0, 50), rng.pick(&["k", "v", "z", "q"]), m(rng)), "map-insert"),
        12 => (format!("{} \"{}\" remove ! {}", m(rng), rng.pick(&["k", "v", "z"]), m(rng)), "map-remove"),
        13 => (format!("{} {} 1 insert ! {}", m(rng), v(rng), m(rng)), "map-insert-vec"),
        14 => {
            let w = rng.below(3);
            (format!(": w{} {} ; {} drop", w, rng.pick(&["2", "b1 bitstr-not", "local a a 1 +", "v0 length", "n0 3 *"]), if w == 2 { "5 w2".to_string() } else { format!("1 w{}", w) }), "redefine-word")
        }
        15 => (format!("w0 w1 5 w2 3 collect ! v{}", rng.below(2)), "call-words"),
        16 => (format!(": lt{} {} ; u{} drop", rng.below(2), rng.range(0, 99), rng.below(2)), "resolve-late"),
        17 => (format!("u{} drop", rng.below(2)), "call-late"),
        18 => (format!("{} bits ! {} {} {} bitstr-append ! {}", rng.below(24), b(rng), b(rng), bits_lit(rng), b(rng)), "slice-of-input"),
        19 => (format!("{} seek u8 n0 + ! n0", rng.below(12) * 8), "seek-read"),
        20 => (format!("{} drop remain offset 2 collect ! v{}", rng.pick(&["u16", "i32be", "u8", "i16le"]), rng.below(2)), "cursor"),
        21 => (format!("n0 1 + ! n0 [ s0 \"z\" ] concat ! s0"), "scalar-update"),
        22 => (format!("n0 {} {} ! {}", rng.range(1, 40), rng.pick(&["int!", "uint!"]), b(rng)), "pack"),
        23 => (format!("{} {} {}", b(rng), v(rng), rng.pick(&["swap", "drop", "dup", "over", "rot"])), "stack-residue"),
        24 => (format!("{} {} do I {} push ! {} loop", rng.range(0, 4), 0, v(rng), v(rng)), "loop-push"),
        25 => (format!("{} foreach I drop loop depth 0 > if drop then", v(rng)), "foreach"),
        26 => (format!("{} open-bitstr {} bits drop {} bits close-bitstr {} open-bitstr offset remain 2 collect ! {} close-bitstr", b(rng), rng.below(17), rng.below(30), rng.pick(&["bitstr-not", "|A5| bitstr-append", "|x.x| swap bitstr-append", "dup bitstr-xor"]), v(rng)), "stack-only-slice-then-mutate"),
        27 => (format!("{} {} open-bitstr offset ! n0 3 bits drop offset remain 2 collect ! {} close-bitstr", b(rng), rng.pick(&["bitstr-not", "|1| bitstr-append", "dup bitstr-or"]), v(rng)), "mutate-then-open"),
        28 => (format!("{} bits {} find {} bits 2 collect ! {}", rng.below(13), bits_lit(rng), rng.below(9), v(rng)), "find"),
        29 => (format!("{} bits bitstr-not {} bits bitstr-append dup open-bitstr offset swap bitstr>hex 2 collect ! {} close-bitstr", 1 + rng.below(12), rng.below(12), v(rng)), "input-slices-mutated"),
        30 => (format!("[ {} {} {} ] >bitstr open-bitstr {} bits drop {} bits close-bitstr", rng.below(256), rng.below(256), rng.below(256), if rng.flip() { 0 } else { rng.below(13) }, 1 + rng.below(23)), "leave-stack-only-slice"),
        31 => (format!("depth 0 > if dup bitstr? if {} dup open-bitstr offset remain 2 collect ! {} close-bitstr then then", rng.pick(&["bitstr-not", "|A5| swap bitstr-append", "|x.x| swap bitstr-append", "dup bitstr-append"]), v(rng)), "mutate-top-of-stack"),
        32 => {
            // a conversion that is refused part-way (nothing it did before may outlive it, in this or any other copy)
            let bad = *rng.pick(&["300", "-1", "nil", "1.5", "{ 1 2 }"]);
            (format!("[ 1 [ 2 [ {} ] ] {} ] >bitstr ! {}", bad, b(rng), b(rng)), "refused-nested-conversion")
        }
        33 => (format!("[ {} [ 1 [ \"ab\" [ {} ] ] ] {} ] >bitstr ! {}", b(rng), rng.below(256), rng.below(256), b(rng)), "nested-conversion"),
        34 => (format!("{} {} d2-resize", rng.range(1, 6), rng.range(1, 6)), "d2-resize"),
        35 => (format!("{} d2-color! {} {} d2-data!", rng.below(1 << 24), rng.below(3), rng.below(3)), "d2-data!"),
        36 => ("d2-clear".to_string(), "d2-clear"),
        _ => (format!("[ 1 2 3 ] d2-palette! d2-width d2-height 0 0 d2-data 3 collect ! v{}", rng.below(2)), "d2-read"),
    }
}

/// the same source with the names of the prelude's words and variables rotated (w0->w1->w2->w0, u0<->u1, lt0<->lt1,
/// v0<->v1, m0<->m1, b0->b1->b2->b3->b0): another clone running it diverges in content while its dictionary keeps the
/// same size
fn rotate_names(src: &str) -> String {
    src.split(' ')
        .map(|t| match t {
            "w0" => "w1",
            "w1" => "w2",
            "w2" => "w0",
            "u0" => "u1",
            "u1" => "u0",
            "lt0" => "lt1",
            "lt1" => "lt0",
            "v0" => "v1",
            "v1" => "v0",
            "m0" => "m1",
            "m1" => "m0",
            "b0" => "b1",
            "b1" => "b2",
            "b2" => "b3",
            "b3" => "b0",
            other => other,
        })
        .collect::<Vec<_>>()
        .join(" ")
}

fn apply(xs: &mut Xstate, op: &Op) -> String {
    match op {
        Op::Eval(s) => {
            let r = catch(|| xs.eval(s));
            observation(xs, &r).1
        }
        Op::CompileRun(s) => {
            let r = catch(|| {
                xs.compile(s)?;
                xs.run()
            });
            observation(xs, &r).1
        }
        Op::Steps(s, k, j) => {
            let r = catch(|| {
                xs.compile(s)?;
                for _ in 0..*k {
                    xs.next()?;
                }
                if xs.is_recording() {
                    for _ in 0..*j {
                        xs.rnext()?;
                    }
                }
                xs.run()
            });
            observation(xs, &r).1
        }
        Op::SetInput(b) => {
            let r = catch(|| xs.set_binary_input(Xbitstr::from(b.clone())));
            observation(xs, &r).1
        }
        Op::Recording(b) => {
            xs.set_recording_enabled(*b);
            "ok".into()
        }
    }
}

impl C03 {
    fn violation(&self, obs: &mut Obs, idx: u64, class: String, history: &[String], detail: String) {
        obs.violation(Violation { class: class.clone(), sig: format!("C03:{}", class), index: idx, case: history.join("\n"), detail });
    }

    fn gen_op(&self, rng: &mut Rng, d2: bool, obs: &mut Obs) -> Op {
        let src = if rng.chance(1, 4) {
            let (s, _, feats) = gen_g2(rng, 14, false);
            for f in feats {
                obs.see("g2_features", f);
            }
            s
        } else {
            let n = 1 + rng.below(3);
            let mut s = String::new();
            for _ in 0..n {
                let (st, kind) = sharing_stmt(rng, d2);
                obs.count(&format!("stmt:{}", kind));
                s.push_str(&st);
                s.push(' ');
            }
            s
        };
        match rng.below(12) {
            0 | 1 => Op::CompileRun(src),
            2 | 3 => Op::Steps(src, rng.below(12), rng.below(8)),
            4 if !d2 => {
                let n = 4 + rng.below(12);
                Op::SetInput(rng.bytes(n))
            }
            5 => Op::Recording(rng.flip()),
            _ => Op::Eval(src),
        }
    }

    fn history(&mut self, idx: u64, obs: &mut Obs) {
        let mut rng = Rng::for_case("C03", self.seed, idx);
        let d2 = self.mode == "d2";
        let root = if d2 { self.boot_d2.clone() } else { self.boot.clone() };
        let mut hist: Vec<String> = vec![];
        let mut copies: Vec<Copy> = vec![];
        let mut snaps: Vec<Snap> = vec![];
        {
            let mut xs = root;
            let _ = xs.set_insn_limit(Some(1_500));
            let _ = xs.set_stack_limit(Some(5_000));
            let last = full_state(&mut xs, d2);
            copies.push(Copy { xs, last, log: vec![], alive: true, origin: "root".into() });
        }
        let nops = 8 + rng.below(40);
        let mut shared_mutations = 0u64;
        for step in 0..nops {
            let live: Vec<usize> = (0..copies.len()).filter(|i| copies[*i].alive).collect();
            let i = *rng.pick(&live);
            let action = rng.below(10);
            let mut touched: Option<usize> = None;
            if action < 2 && live.len() < 8 {
                // clone copy i: a live copy that goes its own way, and a pristine snapshot for the replay
                let mut c = copies[i].xs.clone();
                let mut s = copies[i].xs.clone();
                let last = full_state(&mut c, d2);
                let st = full_state(&mut s, d2);
                if let Some((f, a, b)) = diff(&last, &copies[i].last) {
                    return self.violation(obs, idx, format!("clone-differs:{}", f), &hist, format!("a fresh clone renders differently from its original: {}\nclone:    {}\noriginal: {}", f, truncate(&a, 500), truncate(&b, 500)));
                }
                let at = copies[i].log.len();
                let depth = copies[i].origin.matches('>').count() + 1;
                obs.maxi("max_clone_depth", depth as u64);
                hist.push(format!("[{}] copy#{} = clone of copy#{} (+ snapshot#{})", step, copies.len(), i, snaps.len()));
                copies.push(Copy { xs: c, last, log: copies[i].log.clone(), alive: true, origin: format!("{}>{}", copies[i].origin, i) });
                snaps.push(Snap { xs: s, state: st, of: i, at });
                obs.count("clone_points");
            } else if action == 2 && live.len() > 1 {
                // dropping a copy releases its share of every buffer (unique-owner fast paths become reachable again)
                copies[i].alive = false;
                let dead = std::mem::replace(&mut copies[i].xs, Xstate::default());
                drop(dead);
                hist.push(format!("[{}] drop copy#{}", step, i));
                obs.count("copies_dropped");
            } else {
                let op = self.gen_op(&mut rng, d2, obs);
                // evidence: is some bit-string of this copy sharing its buffer with another owner right now?
                let d = copies[i].xs.verif_dump();
                for c in d.heap.iter().chain(d.data_visible.iter()) {
                    if let Cell::Bitstr(b) = c.value() {
                        if b.verif_storage().0 > 1 {
                            shared_mutations += 1;
                            break;
                        }
                    }
                }
                let o = apply(&mut copies[i].xs, &op);
                if o.starts_with("PANIC") {
                    obs.count("op_panicked(C08)");
                }
                hist.push(format!("[{}] copy#{}: {}", step, i, op.show()));
                obs.count(&format!("op:{}", op.kind()));
                copies[i].log.push((op, o));
                copies[i].last = full_state(&mut copies[i].xs, d2);
                touched = Some(i);
            }
            // ---- immutability: everything that was not operated on renders exactly as before
            let culprit = hist.last().cloned().unwrap_or_default();
            let culprit_class = if d2 { "d2-mode" } else if culprit.contains("d2-") { "d2" } else if culprit.contains("drop copy") { "drop" } else if culprit.contains("clone of") { "clone" } else { "op" };
            for j in 0..copies.len() {
                if Some(j) == touched || !copies[j].alive {
                    continue;
                }
                let now = full_state(&mut copies[j].xs, d2);
                obs.count("immutability_checks");
                if let Some((f, a, b)) = diff(&now, &copies[j].last) {
                    return self.violation(obs, idx, format!("immutability:{}:{}", f, culprit_class), &hist, format!("copy#{} changed although only another copy was operated on ({}): {}\nnow:    {}\nbefore: {}", j, culprit, f, truncate(&a, 600), truncate(&b, 600)));
                }
            }
            for (k, s) in snaps.iter_mut().enumerate() {
                let now = full_state(&mut s.xs, d2);
                obs.count("immutability_checks");
                if let Some((f, a, b)) = diff(&now, &s.state) {
                    return self.violation(obs, idx, format!("immutability:{}:{}", f, culprit_class), &hist, format!("snapshot#{} (of copy#{}) changed after {}: {}\nnow:    {}\nbefore: {}", k, s.of, culprit, f, truncate(&a, 600), truncate(&b, 600)));
                }
            }
        }
        // ---- determinism: replay what the original did after each clone point on the pristine snapshot.
        // Round 0: on a clone of the snapshot (clone of clone) while every copy is still alive (buffers shared).
        // Round 1: every live copy is dropped first, then the snapshots themselves replay one after the other in a
        // seeded order, each dropped afterwards - so ownership of shared buffers becomes unique along the way.
        for round in 0..2 {
            let mut order: Vec<usize> = (0..snaps.len()).collect();
            if round == 1 {
                for c in copies.iter_mut() {
                    if c.alive {
                        let dead = std::mem::replace(&mut c.xs, Xstate::default());
                        drop(dead);
                    }
                }
                for i in (1..order.len()).rev() {
                    order.swap(i, rng.below(i + 1));
                }
            }
            for k in order {
                let s = &mut snaps[k];
                let ops: Vec<(Op, String)> = copies[s.of].log[s.at..].to_vec();
                let mut target = if round == 0 { s.xs.clone() } else { std::mem::replace(&mut s.xs, Xstate::default()) };
                // "no later activity on any other clone can change it": half of the replays are shadowed by another clone
                // of the same snapshot that goes a different way in lockstep - the same sources with the names of words and
                // variables rotated - and keeps looking names up right before the replay does
                let mut shadow = if round == 0 && !d2 && rng.flip() {
                    obs.count("replays_shadowed_by_a_diverging_clone");
                    Some(target.clone())
                } else {
                    None
                };
                for (n, (op, want)) in ops.iter().enumerate() {
                    if let Some(sh) = shadow.as_mut() {
                        // right before the replay looks its first name up, the shadow looks the same name up (its
                        // dictionary has the same size, other content)
                        let first = match op {
                            Op::Eval(t) | Op::CompileRun(t) | Op::Steps(t, _, _) => t.split_whitespace().next().unwrap_or("").to_string(),
                            _ => String::new(),
                        };
                        if !first.is_empty() {
                            let _ = apply(sh, &Op::Eval(format!("depth 0 > if drop then {}", first)));
                        }
                    }
                    let got = apply(&mut target, op);
                    if let Some(sh) = shadow.as_mut() {
                        let rot = match op {
                            Op::Eval(t) => Some(Op::Eval(rotate_names(t))),
                            Op::CompileRun(t) => Some(Op::CompileRun(rotate_names(t))),
                            Op::Steps(t, a, b) => Some(Op::Steps(rotate_names(t), *a, *b)),
                            _ => None,
                        };
                        if let Some(r) = rot {
                            let _ = apply(sh, &r);
                        }
                    }
                    obs.count("replayed_ops");
                    if &got != want {
                        let class = if op.show().contains("d2-") { "d2" } else { op.kind() };
                        return self.violation(obs, idx, format!("determinism:{}", class), &hist, format!("snapshot#{} (round {}) replaying op {} of copy#{} after the clone point: {}\noriginal observed:\n{}\nsnapshot observed:\n{}", k, round, n, s.of, op.show(), truncate(want, 900), truncate(&got, 900)));
                    }
                }
                if copies[s.of].alive {
                    let fin = full_state(&mut target, d2);
                    if let Some((f, a, b)) = diff(&fin, &copies[s.of].last) {
                        return self.violation(obs, idx, format!("determinism-final-state:{}", f), &hist, format!("snapshot#{} (round {}) after replaying {} ops differs from copy#{} in {}\nsnapshot: {}\noriginal: {}", k, round, ops.len(), s.of, f, truncate(&a, 600), truncate(&b, 600)));
                    }
                    obs.count("final_states_compared");
                }
            }
        }
        obs.add("evaluations", 1);
        obs.add("ops_on_copy_with_shared_bitstr_buffer", shared_mutations);
        obs.maxi("max_live_copies", copies.iter().filter(|c| c.alive).count() as u64);
        let shape: Vec<&str> = hist.iter().map(|h| if h.contains("clone of") { "C" } else if h.contains("drop copy") { "D" } else if h.contains("next") { "S" } else { "E" }).collect();
        if snaps.len() >= 1 && hist.len() >= 8 {
            obs.shape(fnv1a(format!("{}{}", shape.join(""), idx % 64).as_bytes()) ^ fnv1a(hist.join("|").as_bytes()));
        }
        if idx % 797 == 0 {
            obs.sample(J::obj(vec![("index", J::Int(idx as i128)), ("history", J::Arr(hist.iter().take(14).map(|h| J::s(h.clone())).collect()))]));
        }
    }
}

impl Monitor for C03 {
    fn run_case(&mut self, idx: u64, obs: &mut Obs) {
        if self.mode == "capi" {
            return capi_case(self, idx, obs);
        }
        self.history(idx, obs);
    }
    fn describe(&mut self, idx: u64) -> String {
        format!("clone-tree history #{} (mode {:?}); replay with --only to print it", idx, self.mode)
    }
}

/// c_api shard: the same two oracles through xeh_open / xeh_snapshot / xeh_push / xeh_pop / xeh_close (run natively,
/// and under Miri / ASan in the thorough tier for double free, use after free and leaks)
fn capi_case(m: &mut C03, idx: u64, obs: &mut Obs) {
    use xeh::c_api::*;
    let mut rng = Rng::for_case("C03capi", m.seed, idx);
    let mut hist: Vec<String> = vec![];
    unsafe {
        let root = xeh_open();
        if root.is_null() {
            obs.count("capi_open_failed");
            return;
        }
        (*root).intercept_stdout(true);
        let _ = (*root).intercept_output(true);
        let _ = (*root).eval(PRELUDE);
        let _ = (*root).set_insn_limit(Some(1_500));
        let _ = (*root).set_stack_limit(Some(5_000));
        let mut ptrs: Vec<(*mut Xstate, Vec<(&'static str, String)>)> = vec![];
        let st = full_state(&mut *root, false);
        ptrs.push((root, st));
        let n = if small() { 3 + rng.below(3) } else { 4 + rng.below(10) };
        for step in 0..n {
            let i = rng.below(ptrs.len());
            let p = ptrs[i].0;
            let mut touched = Some(i);
            match rng.below(9) {
                0 if ptrs.len() < 5 => {
                    let q = xeh_snapshot(p);
                    let st = full_state(&mut *q, false);
                    hist.push(format!("[{}] #{} = xeh_snapshot(#{})", step, ptrs.len(), i));
                    if let Some((f, a, b)) = diff(&st, &ptrs[i].1) {
                        m.violation(obs, idx, format!("capi:snapshot-differs:{}", f), &hist, format!("{}\n{}", truncate(&a, 400), truncate(&b, 400)));
                    }
                    ptrs.push((q, st));
                    touched = None;
                    obs.count("capi_snapshots");
                }
                1 => {
                    let v = xeh_pop(p);
                    hist.push(format!("[{}] xeh_pop(#{}) -> {}", step, i, if v.is_null() { "null".to_string() } else { show(&*v) }));
                    if !v.is_null() {
                        if rng.flip() && (*p).data_depth() < 100 {
                            xeh_push(p, v);
                            hist.push(format!("[{}] xeh_push(#{})", step, i));
                        } else {
                            xeh_release(v);
                        }
                    }
                    obs.count("capi_pop_push");
                }
                2 if ptrs.len() > 1 => {
                    hist.push(format!("[{}] xeh_close(#{})", step, i));
                    xeh_close(p);
                    ptrs.remove(i);
                    touched = None;
                    obs.count("capi_closes");
                }
                3 => {
                    let on = rng.chance(3, 4);
                    (*p).set_recording_enabled(on);
                    hist.push(format!("[{}] #{} set_recording_enabled({})", step, i, on));
                    obs.count("capi_recording_toggles");
                }
                4 => {
                    // compile, step forward, step back: snapshots taken afterwards must carry the same undo history
                    let (s, _) = sharing_stmt(&mut rng, false);
                    let k = rng.below(10);
                    let j = rng.below(6);
                    let _ = (*p).compile(&s);
                    for _ in 0..k {
                        let _ = (*p).next();
                    }
                    for _ in 0..j {
                        let _ = (*p).rnext();
                    }
                    hist.push(format!("[{}] #{} compile {:?}; {}x next; {}x rnext", step, i, s, k, j));
                    obs.count("capi_steps");
                }
                5 if ptrs.len() > 1 => {
                    // rnext on every handle: handles with equal state must stay equal (a snapshot has the original's undo log)
                    let before: Vec<bool> = ptrs.iter().map(|(q, _)| full_state(&mut **q, false) == ptrs[i].1).collect();
                    for (q, st) in ptrs.iter_mut() {
                        let _ = (**q).rnext();
                        *st = full_state(&mut **q, false);
                    }
                    hist.push(format!("[{}] rnext on every handle", step));
                    for (j, same) in before.iter().enumerate() {
                        if *same {
                            if let Some((f, a, b)) = diff(&ptrs[j].1, &ptrs[i].1) {
                                m.violation(obs, idx, format!("capi:determinism-rnext:{}", f), &hist, format!("#{} and #{} were identical, after one rnext on each they differ in {}\n{}\n{}", j, i, f, truncate(&a, 400), truncate(&b, 400)));
                                break;
                            }
                            obs.count("capi_twin_rnext_compared");
                        }
                    }
                    touched = None;
                }
                _ => {
                    let (s, kind) = sharing_stmt(&mut rng, false);
                    obs.count(&format!("stmt:{}", kind));
                    let _ = (*p).eval(&s);
                    hist.push(format!("[{}] #{} eval {:?}", step, i, s));
                    let top = xeh_top_len(p);
                    if top != (*p).data_depth() {
                        m.violation(obs, idx, "capi:top_len".into(), &hist, format!("xeh_top_len {} != data_depth {}", top, (*p).data_depth()));
                    }
                }
            }
            if let Some(t) = touched {
                if t < ptrs.len() {
                    ptrs[t].1 = full_state(&mut *ptrs[t].0, false);
                }
            }
            for (j, (q, st)) in ptrs.iter().enumerate() {
                if Some(j) == touched {
                    continue;
                }
                let now = full_state(&mut **q, false);
                obs.count("immutability_checks");
                if let Some((f, a, b)) = diff(&now, st) {
                    m.violation(obs, idx, format!("capi:immutability:{}", f), &hist, format!("#{} changed: {}\nnow:    {}\nbefore: {}", j, f, truncate(&a, 500), truncate(&b, 500)));
                    break;
                }
            }
        }
        for (q, _) in ptrs.drain(..) {
            xeh_close(q);
        }
    }
    obs.add("evaluations", 1);
    obs.shape(fnv1a(hist.join("|").as_bytes()));
    if idx % 397 == 0 {
        obs.sample(J::obj(vec![("index", J::Int(idx as i128)), ("capi_history", J::Arr(hist.iter().take(10).map(|h| J::s(h.clone())).collect()))]));
    }
}
