//! C05 — number <-> bits codecs are exact inverses, independent of alignment.
//! Oracle: independent mask / two's-complement arithmetic on u128, std byte layouts, own bit packer.
use super::Monitor;
use crate::util::*;
use crate::Args;
use xeh::bitstr::{Bitstr, BitvecBuilder, Byteorder, BIG, LITTLE};
use xeh::prelude::*;

pub struct C05 {
    seed: u64,
    boot: Xstate,
}

impl C05 {
    pub fn new(a: &Args) -> C05 {
        C05 { seed: a.seed, boot: Xstate::boot().expect("boot") }
    }
}

pub fn mask(w: usize) -> u128 {
    if w >= 128 {
        u128::MAX
    } else {
        (1u128 << w) - 1
    }
}

pub fn sign_extend(v: u128, w: usize) -> i128 {
    if w >= 128 {
        v as i128
    } else if (v >> (w - 1)) & 1 == 1 {
        (v | !mask(w)) as i128
    } else {
        v as i128
    }
}

/// expected bit layout of the w low bits of v
pub fn layout(v: u128, w: usize, big: bool) -> Vec<u8> {
    let mut out = Vec::with_capacity(w);
    if big {
        for k in (0..w).rev() {
            out.push(((v >> k) & 1) as u8);
        }
    } else {
        let mut i = 0;
        while i < w {
            let n = (w - i).min(8);
            for k in (0..n).rev() {
                out.push(((v >> (i + k)) & 1) as u8);
            }
            i += n;
        }
    }
    out
}

pub fn bits_literal(bits: &[u8]) -> String {
    let mut s = String::from("|");
    for b in bits {
        s.push(if *b == 1 { 'x' } else { '.' });
    }
    s.push('|');
    s
}

/// field bits placed at bit offset `o` inside random padding (own packer, not from_int)
pub fn place(field: &[u8], o: usize, rng: &mut Rng) -> (Bitstr, Vec<u8>) {
    let trail = rng.below(11);
    let mut all = Vec::new();
    for _ in 0..o {
        all.push(rng.flip() as u8);
    }
    all.extend_from_slice(field);
    for _ in 0..trail {
        all.push(rng.flip() as u8);
    }
    let mut b = BitvecBuilder::default();
    for x in &all {
        b.append_bit(*x);
    }
    (b.finish(), all)
}

fn order_of(big: bool) -> Byteorder {
    if big {
        BIG
    } else {
        LITTLE
    }
}

struct Cell5 {
    w: usize,
    big: bool,
    signed: bool,
    off: usize,
    round: u64,
}

impl C05 {
    fn cell(&self, idx: u64) -> Cell5 {
        let c = idx % 4096;
        Cell5 {
            w: (c / 32) as usize + 1,
            big: (c / 16) % 2 == 1,
            signed: (c / 8) % 2 == 1,
            off: (c % 8) as usize,
            round: idx / 4096,
        }
    }

    fn values(&self, c: &Cell5, rng: &mut Rng) -> Vec<i128> {
        let w = c.w;
        let mut v: Vec<i128> = vec![0, 1, -1, 2, -2];
        let min = if w >= 128 { i128::MIN } else { -(1i128 << (w - 1)) };
        let max = if w >= 128 { i128::MAX } else { (1i128 << (w - 1)) - 1 };
        let umax = mask(w) as i128;
        v.extend_from_slice(&[min, max, umax, min.wrapping_sub(1), max.wrapping_add(1), i128::MIN, i128::MAX]);
        if c.round == 0 {
            for k in 0..128 {
                v.push(((1u128) << k) as i128);
            }
        } else {
            for _ in 0..16 {
                v.push(((1u128) << rng.below(128)) as i128);
            }
        }
        let nrand = if c.round == 0 { 64 } else { 160 };
        for _ in 0..nrand {
            let r = rng.next_u128();
            // mix of full-width and width-sized random values
            v.push(if rng.flip() { r as i128 } else { (r & mask(w)) as i128 });
        }
        v
    }

    fn fail(&self, obs: &mut Obs, idx: u64, c: &Cell5, what: &str, class: &str, detail: String) {
        obs.violation(Violation {
            class: format!("{}:{}", what, class),
            sig: format!("C05:{}:{}:{}", what, class, if c.big { "big" } else { "little" }),
            index: idx,
            case: format!("width={} order={} signed={} offset={} round={}", c.w, if c.big { "big" } else { "little" }, c.signed, c.off, c.round),
            detail,
        });
    }

    fn lang_eval(&self, src: &str) -> Result<Xstate, String> {
        let mut xs = self.boot.clone();
        match catch(|| xs.eval(src)) {
            Err((m, l)) => Err(format!("panic {} at {}", m, l)),
            Ok(Err(e)) => Err(format!("error {:?}", e)),
            Ok(Ok(())) => Ok(xs),
        }
    }

    fn run_int(&mut self, idx: u64, obs: &mut Obs) {
        let c = self.cell(idx);
        let mut rng = Rng::for_case("C05", self.seed, idx);
        let (w, big, off) = (c.w, c.big, c.off);
        let bo = order_of(big);
        let vals = self.values(&c, &mut rng);
        obs.shape(fnv1a(format!("{}-{}-{}-{}-{}", w, big, c.signed, off, c.round).as_bytes()));
        obs.count(&format!("cells:{}:{}", if big { "big" } else { "little" }, if c.signed { "signed" } else { "unsigned" }));
        let mut api_checks = 0u64;
        for (vi, v) in vals.iter().enumerate() {
            let reduced = (*v as u128) & mask(w);
            let expect_bits = layout(reduced, w, big);
            let expect_u = reduced;
            let expect_i = sign_extend(reduced, w);
            // pack
            let packed = match catch(|| Bitstr::from_int(*v, w, bo)) {
                Ok(p) => p,
                Err((m, l)) => {
                    self.fail(obs, idx, &c, "from_int", "panic", format!("value {} panic {} at {}", v, m, l));
                    return;
                }
            };
            let got_bits: Vec<u8> = packed.bits().collect();
            if got_bits != expect_bits {
                self.fail(obs, idx, &c, "from_int", "layout", format!("value {}: bits {:?} expected {:?}", v, got_bits, expect_bits));
                return;
            }
            if w % 8 == 0 && w <= 128 {
                // standard byte layouts
                let n = w / 8;
                let std_bytes: Vec<u8> = if big { v.to_be_bytes()[16 - n..].to_vec() } else { v.to_le_bytes()[..n].to_vec() };
                if packed.to_bytes() != Some(std_bytes.clone()) {
                    self.fail(obs, idx, &c, "from_int", "std-bytes", format!("value {}: {:?} expected {:?}", v, packed.to_bytes(), std_bytes));
                    return;
                }
            }
            // decode the packed value itself and the same field at bit offset `off`
            let (placed, _all) = place(&expect_bits, off, &mut rng);
            let field = placed.substr(off, off + w).expect("harness substr");
            for (name, src) in [("packed", &packed), ("placed", &field)] {
                let r = catch(|| (src.to_uint(bo), src.to_int(bo)));
                match r {
                    Err((m, l)) => {
                        self.fail(obs, idx, &c, "decode", "panic", format!("{} value {} panic {} at {}", name, v, m, l));
                        return;
                    }
                    Ok((u, i)) => {
                        api_checks += 2;
                        if u != expect_u {
                            self.fail(obs, idx, &c, "to_uint", if name == "placed" && off % 8 != 0 { "unaligned" } else { "aligned" },
                                format!("{} value {} (#{}) : to_uint = {:#x}, expected {:#x}; field bits {:?}", name, v, vi, u, expect_u, expect_bits));
                            return;
                        }
                        if i != expect_i {
                            self.fail(obs, idx, &c, "to_int", if name == "placed" && off % 8 != 0 { "unaligned" } else { "aligned" },
                                format!("{} value {} (#{}) : to_int = {}, expected {}", name, v, vi, i, expect_i));
                            return;
                        }
                    }
                }
            }
        }
        obs.add("api_round_trips", api_checks);

        // ---- language level: read words and pack words on a handful of values of this cell
        let picks: Vec<i128> = {
            let mut p = vec![vals[5], vals[6], vals[7]];
            for _ in 0..3 {
                p.push(*rng.pick(&vals));
            }
            p
        };
        for v in picks {
            let reduced = (v as u128) & mask(w);
            let expect_bits = layout(reduced, w, big);
            let (_placed, all) = place(&expect_bits, off, &mut rng);
            let signed = c.signed;
            // the session byte order is the variable big? : set by the words big / little, by a history of both, or by a
            // plain store
            let ord = match rng.below(5) {
                0 => if big { "1 ! big?" } else { "0 ! big?" },
                1 => if big { "little big" } else { "big little" },
                2 => if big { "little 1 ! big?" } else { "big 0 ! big?" },
                _ => if big { "big" } else { "little" },
            };
            if ord.contains('!') {
                obs.count("byte_order_set_by_store");
            }
            // generic width words
            if signed || w <= 127 {
                let word = if signed { "int" } else { "uint" };
                let src = format!("{} open-bitstr {} {} bits drop {} {}", bits_literal(&all), ord, off, w, word);
                let want = if signed { sign_extend(reduced, w) } else { reduced as i128 };
                match self.lang_eval(&src) {
                    Err(e) => {
                        self.fail(obs, idx, &c, "lang-read", "error", format!("{} -> {}", src, e));
                        return;
                    }
                    Ok(xs) => {
                        let got = xs.get_data(0).and_then(|x| x.to_xint().ok());
                        if got != Some(want) || xs.data_depth() != 1 {
                            self.fail(obs, idx, &c, "lang-read", if off % 8 != 0 { "unaligned" } else { "aligned" },
                                format!("{} -> {:?} (depth {}), expected {}", src, got, xs.data_depth(), want));
                            return;
                        }
                        obs.count("lang_reads");
                        obs.see("lang_words", word);
                    }
                }
            }
            // fixed width words uN/iN with explicit and implicit byte order
            if w == 8 || w == 16 || w == 32 || w == 64 {
                let base = format!("{}{}", if signed { "i" } else { "u" }, w);
                let explicit = format!("{}{}", base, if big { "be" } else { "le" });
                let want = if signed { sign_extend(reduced, w) } else { reduced as i128 };
                for (word, pre) in [(explicit.clone(), if big { "little" } else { "big" }), (base.clone(), ord)] {
                    let src = format!("{} open-bitstr {} {} bits drop {}", bits_literal(&all), pre, off, word);
                    match self.lang_eval(&src) {
                        Err(e) => {
                            self.fail(obs, idx, &c, "lang-read", "error", format!("{} -> {}", src, e));
                            return;
                        }
                        Ok(xs) => {
                            let got = xs.get_data(0).and_then(|x| x.to_xint().ok());
                            if got != Some(want) {
                                self.fail(obs, idx, &c, "lang-read", if off % 8 != 0 { "unaligned" } else { "aligned" },
                                    format!("{} -> {:?}, expected {}", src, got, want));
                                return;
                            }
                            obs.count("lang_reads");
                            obs.see("lang_words", &word);
                        }
                    }
                }
                // pack words
                for (word, pre) in [(format!("{}!", explicit), if big { "little" } else { "big" }), (format!("{}!", base), ord)] {
                    let src = format!("{} {} {}", pre, v, word);
                    match self.lang_eval(&src) {
                        Err(e) => {
                            self.fail(obs, idx, &c, "lang-pack", "error", format!("{} -> {}", src, e));
                            return;
                        }
                        Ok(xs) => {
                            let got: Option<Vec<u8>> = xs.get_data(0).and_then(|x| x.bitstr().ok()).map(|b| b.bits().collect());
                            if got.as_ref() != Some(&expect_bits) {
                                self.fail(obs, idx, &c, "lang-pack", "layout", format!("{} -> {:?}, expected {:?}", src, got, expect_bits));
                                return;
                            }
                            obs.count("lang_packs");
                            obs.see("lang_words", &word);
                        }
                    }
                }
            }
            // generic pack words
            let word = if signed { "int!" } else { "uint!" };
            let src = format!("{} {} {} {}", ord, v, w, word);
            match self.lang_eval(&src) {
                Err(e) => {
                    self.fail(obs, idx, &c, "lang-pack", "error", format!("{} -> {}", src, e));
                    return;
                }
                Ok(xs) => {
                    let got: Option<Vec<u8>> = xs.get_data(0).and_then(|x| x.bitstr().ok()).map(|b| b.bits().collect());
                    if got.as_ref() != Some(&expect_bits) {
                        self.fail(obs, idx, &c, "lang-pack", "layout", format!("{} -> {:?}, expected {:?}", src, got, expect_bits));
                        return;
                    }
                    obs.count("lang_packs");
                    obs.see("lang_words", word);
                }
            }
        }
        if idx % 1371 == 0 {
            obs.sample(J::obj(vec![
                ("width", J::Int(w as i128)),
                ("order", J::s(if big { "big" } else { "little" })),
                ("signed", J::Bool(c.signed)),
                ("offset", J::Int(off as i128)),
                ("values", J::Arr(vals.iter().take(8).map(|v| J::s(v.to_string())).collect())),
            ]));
        }
    }

    fn run_float(&mut self, idx: u64, obs: &mut Obs) {
        // float cells: (32|64) x order x offset, value classes per case
        let mut rng = Rng::for_case("C05f", self.seed, idx);
        let c = idx % 32;
        let is64 = c / 16 == 1;
        let big = (c / 8) % 2 == 1;
        let off = (c % 8) as usize;
        let bo = order_of(big);
        let cell = Cell5 { w: if is64 { 64 } else { 32 }, big, signed: false, off, round: idx / 32 };
        obs.shape(fnv1a(format!("f{}-{}-{}-{}", cell.w, big, off, cell.round).as_bytes()));
        obs.count("float_cells");
        let mut patterns: Vec<(u64, &str)> = Vec::new();
        if is64 {
            for (p, n) in [
                (0u64, "zero"), (1 << 63, "neg-zero"), (0x7ff0000000000000, "inf"), (0xfff0000000000000, "neg-inf"),
                (1, "min-subnormal"), (0x000fffffffffffff, "max-subnormal"), (0x0010000000000000, "min-normal"),
                (0x7fefffffffffffff, "max"), (0x7ff8000000000000, "qnan"), (0x7ff0000000000001, "snan-payload"),
                (0xfff8deadbeef1234, "neg-nan-payload"), (0x3ff0000000000000, "one"),
            ] {
                patterns.push((p, n));
            }
            for _ in 0..20 {
                patterns.push((rng.next_u64(), "random"));
            }
        } else {
            for (p, n) in [
                (0u64, "zero"), (1 << 31, "neg-zero"), (0x7f800000, "inf"), (0xff800000, "neg-inf"), (1, "min-subnormal"),
                (0x007fffff, "max-subnormal"), (0x00800000, "min-normal"), (0x7f7fffff, "max"), (0x7fc00000, "qnan"),
                (0x7f800001, "snan-payload"), (0xffc12345, "neg-nan-payload"), (0x3f800000, "one"),
            ] {
                patterns.push((p, n));
            }
            for _ in 0..20 {
                patterns.push((rng.next_u64() & 0xffff_ffff, "random"));
            }
        }
        for (p, class) in patterns {
            obs.see("float_classes", class);
            let w = cell.w;
            // expected layout from std byte layouts
            let bytes: Vec<u8> = if is64 {
                if big { p.to_be_bytes().to_vec() } else { p.to_le_bytes().to_vec() }
            } else if big {
                (p as u32).to_be_bytes().to_vec()
            } else {
                (p as u32).to_le_bytes().to_vec()
            };
            let expect_bits: Vec<u8> = bytes.iter().flat_map(|b| (0..8).rev().map(move |i| (b >> i) & 1)).collect();
            let packed = if is64 { Bitstr::from_f64(f64::from_bits(p), bo) } else { Bitstr::from_f32(f32::from_bits(p as u32), bo) };
            let got: Vec<u8> = packed.bits().collect();
            if got != expect_bits {
                self.fail(obs, idx, &cell, "from_float", "layout", format!("{:#x}: {:?} expected {:?}", p, got, expect_bits));
                return;
            }
            let (placed, all) = place(&expect_bits, off, &mut rng);
            let field = placed.substr(off, off + w).expect("harness substr");
            for (name, src) in [("packed", &packed), ("placed", &field)] {
                let back = if is64 { src.to_f64(bo).to_bits() } else { src.to_f32(bo).to_bits() as u64 };
                if back != p {
                    self.fail(obs, idx, &cell, "to_float", if name == "placed" && off % 8 != 0 { "unaligned" } else { "aligned" },
                        format!("{} {:#x} decoded as {:#x}", name, p, back));
                    return;
                }
                obs.count("float_round_trips");
            }
            // language level read (NaN compared as NaN; f32 widened exactly)
            let word = format!("f{}{}", w, if big { "be" } else { "le" });
            let generic = rng.flip();
            let src = if generic {
                format!("{} open-bitstr {} {} bits drop {} float", bits_literal(&all), if big { "big" } else { "little" }, off, w)
            } else {
                format!("{} open-bitstr {} bits drop {}", bits_literal(&all), off, word)
            };
            match self.lang_eval(&src) {
                Err(e) => {
                    self.fail(obs, idx, &cell, "lang-float-read", "error", format!("{} -> {}", src, e));
                    return;
                }
                Ok(xs) => {
                    let got = xs.get_data(0).and_then(|x| x.to_real().ok());
                    let want = if is64 { f64::from_bits(p) } else { f32::from_bits(p as u32) as f64 };
                    let same = match got {
                        Some(g) => (g.is_nan() && want.is_nan()) || g.to_bits() == want.to_bits(),
                        None => false,
                    };
                    if !same {
                        self.fail(obs, idx, &cell, "lang-float-read", if off % 8 != 0 { "unaligned" } else { "aligned" },
                            format!("{} -> {:?}, expected {:?}", src, got, want));
                        return;
                    }
                    obs.count("lang_float_reads");
                    obs.see("lang_words", if generic { "float" } else { &word });
                }
            }
            // language level: the number just read, packed again, gives the same bits - NaN sign and payload included.
            // (A 32-bit signalling NaN has no counterpart among the interpreter's 64-bit reals - widening quiets it - so
            // there is no value whose packing could return it; every other 32-bit pattern widens and narrows exactly.)
            let signalling32 = !is64 && (p & 0x7f80_0000) == 0x7f80_0000 && (p & 0x007f_ffff) != 0 && (p & 0x0040_0000) == 0;
            if signalling32 {
                continue;
            }
            let packw = if rng.flip() { format!("{} float!", w) } else { format!("{}!", word) };
            let src2 = format!("{} {} {}", src, if big { "big" } else { "little" }, packw);
            let want_bits: u64 = p;
            let wbytes: Vec<u8> = if is64 {
                if big { want_bits.to_be_bytes().to_vec() } else { want_bits.to_le_bytes().to_vec() }
            } else if big {
                (want_bits as u32).to_be_bytes().to_vec()
            } else {
                (want_bits as u32).to_le_bytes().to_vec()
            };
            let want2: Vec<u8> = wbytes.iter().flat_map(|b| (0..8).rev().map(move |i| (b >> i) & 1)).collect();
            match self.lang_eval(&src2) {
                Err(e) => {
                    self.fail(obs, idx, &cell, "lang-float-repack", "error", format!("{} -> {}", src2, e));
                    return;
                }
                Ok(xs) => {
                    let got: Option<Vec<u8>> = xs.get_data(0).and_then(|x| x.bitstr().ok()).map(|b| b.bits().collect());
                    if got.as_ref() != Some(&want2) {
                        self.fail(obs, idx, &cell, "lang-float-repack", class, format!("{} -> {:?}, expected the bits {:#x}", src2, got, want_bits));
                        return;
                    }
                    obs.count("lang_float_repacks");
                }
            }
        }
        // language level pack of exactly representable decimals
        for _ in 0..4 {
            let val = rng.range(-1_000_000_000, 1_000_000_000) as f64 / 1024.0;
            let w = cell.w;
            let txt = format!("{:?}", val);
            if !txt.contains('.') || txt.contains('e') {
                continue;
            }
            let word = format!("f{}{}!", w, if big { "be" } else { "le" });
            let generic = rng.flip();
            let src = if generic {
                format!("{} {} {} float!", if big { "big" } else { "little" }, txt, w)
            } else {
                format!("{} {}", txt, word)
            };
            let bytes: Vec<u8> = if is64 {
                if big { val.to_be_bytes().to_vec() } else { val.to_le_bytes().to_vec() }
            } else if big {
                (val as f32).to_be_bytes().to_vec()
            } else {
                (val as f32).to_le_bytes().to_vec()
            };
            let expect_bits: Vec<u8> = bytes.iter().flat_map(|b| (0..8).rev().map(move |i| (b >> i) & 1)).collect();
            match self.lang_eval(&src) {
                Err(e) => {
                    self.fail(obs, idx, &cell, "lang-float-pack", "error", format!("{} -> {}", src, e));
                    return;
                }
                Ok(xs) => {
                    let got: Option<Vec<u8>> = xs.get_data(0).and_then(|x| x.bitstr().ok()).map(|b| b.bits().collect());
                    if got.as_ref() != Some(&expect_bits) {
                        self.fail(obs, idx, &cell, "lang-float-pack", "layout", format!("{} -> {:?}, expected {:?}", src, got, expect_bits));
                        return;
                    }
                    obs.count("lang_float_packs");
                    obs.see("lang_words", if generic { "float!" } else { &word });
                }
            }
        }
    }
}

impl Monitor for C05 {
    fn run_case(&mut self, idx: u64, obs: &mut Obs) {
        // one float case after every 16 integer cells
        if idx % 17 == 16 {
            self.run_float(idx / 17, obs);
        } else {
            self.run_int(idx - idx / 17, obs);
        }
    }
    fn boot_mut(&mut self) -> Option<&mut Xstate> {
        Some(&mut self.boot)
    }
    fn describe(&mut self, idx: u64) -> String {
        if idx % 17 == 16 {
            let c = (idx / 17) % 32;
            format!("float cell width={} order={} offset={}", if c / 16 == 1 { 64 } else { 32 }, if (c / 8) % 2 == 1 { "big" } else { "little" }, c % 8)
        } else {
            let c = self.cell(idx - idx / 17);
            format!("width={} order={} signed={} offset={} round={}", c.w, if c.big { "big" } else { "little" }, c.signed, c.off, c.round)
        }
    }
}
