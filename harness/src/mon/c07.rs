//! C07 — binary construction is the inverse of binary parsing.
//! Oracle: the generator's field list (values, widths, signedness, byte order switches) + the harness's own packer for
//! the expected bit layout (so that symmetric pack/parse bugs do not cancel) + independent decoders for the way back.
use super::Monitor;
use crate::mon::c05::{layout, mask, sign_extend};
use crate::mon::c15::truncate;
use crate::render::*;
use crate::util::*;
use crate::Args;
use xeh::prelude::*;

pub struct C07 {
    seed: u64,
    boot: Xstate,
}

impl C07 {
    pub fn new(a: &Args) -> C07 {
        let mut boot = Xstate::boot().expect("boot");
        boot.intercept_stdout(true);
        boot.intercept_output(true).expect("intercept output");
        let _ = boot.set_insn_limit(Some(50_000));
        let _ = boot.set_stack_limit(Some(5_000));
        C07 { seed: a.seed, boot }
    }
}

struct Field {
    /// words to run before this field (byte order switch), both when packing and when parsing
    pre: &'static str,
    /// expression that leaves the packed field (a bit-string, or a string / byte value inside a vector)
    pack: String,
    /// valid outside a vector too (leaves a bit-string on the stack)
    pack_is_bitstr: bool,
    bits: Vec<u8>,
    parse: String,
    /// rendering of the value the parse word must return (show_untagged format)
    want: String,
    kind: String,
}

fn bits_of_bytes(b: &[u8]) -> Vec<u8> {
    let mut v = Vec::with_capacity(b.len() * 8);
    for x in b {
        for k in (0..8).rev() {
            v.push((x >> k) & 1);
        }
    }
    v
}

impl C07 {
    fn fail(&self, obs: &mut Obs, idx: u64, class: &str, case: String, detail: String) {
        obs.violation(Violation { class: class.to_string(), sig: format!("C07:{}", class), index: idx, case, detail });
    }
}

impl Monitor for C07 {
    fn run_case(&mut self, idx: u64, obs: &mut Obs) {
        let mut rng = Rng::for_case("C07", self.seed, idx);
        let mut xs = self.boot.clone();
        let nfields = 1 + rng.below(24);
        let mut fields: Vec<Field> = vec![];
        let mut big = false;
        let mut total = 0usize;
        for i in 0..nfields {
            let mut pre = "";
            if rng.chance(1, 4) {
                big = !big;
                pre = if big { "big" } else { "little" };
            }
            let name = format!("fv{}", i);
            let k = rng.below(20);
            let f = match k {
                0..=7 => {
                    // integer of any width through int! / uint!
                    let w = *rng.pick(&[1usize, 2, 3, 4, 5, 7, 8, 9, 12, 13, 15, 16, 17, 24, 31, 32, 33, 63, 64, 65, 96, 127, 128]);
                    let w = if rng.chance(1, 3) { 1 + rng.below(128) } else { w };
                    let signed = rng.flip() || w == 128;
                    let v: i128 = match rng.below(8) {
                        0 => 0,
                        1 => -1,
                        2 => i128::MAX,
                        3 => i128::MIN,
                        4 => 1i128.checked_shl(w as u32 - 1).unwrap_or(i128::MIN),
                        5 => (1i128.checked_shl(w as u32 - 1).unwrap_or(i128::MIN)).wrapping_sub(1),
                        _ => rng.next_u128() as i128 >> rng.below(128),
                    };
                    let _ = xs.defvar(Xstr::from(name.as_str()), Cell::Int(v));
                    let u = (v as u128) & mask(w);
                    Field {
                        pre,
                        pack: format!("{} {} {}", name, w, if signed { "int!" } else { "uint!" }),
                        pack_is_bitstr: true,
                        bits: layout(u, w, big),
                        parse: format!("{} {}", w, if signed { "int" } else { "uint" }),
                        want: if signed { format!("{}", sign_extend(u, w)) } else { format!("{}", u) },
                        kind: format!("int{}:{}:a{}", if w % 8 == 0 { "-bytes" } else { "-odd" }, if big { "big" } else { "little" }, total % 8),
                    }
                }
                8..=10 => {
                    // fixed-width words with and without explicit byte order
                    let w = *rng.pick(&[8usize, 16, 32, 64]);
                    let signed = rng.flip();
                    let order = *rng.pick(&["", "le", "be"]);
                    let b = match order {
                        "le" => false,
                        "be" => true,
                        _ => big,
                    };
                    let v: i128 = rng.next_u128() as i128 >> rng.below(128);
                    let _ = xs.defvar(Xstr::from(name.as_str()), Cell::Int(v));
                    let u = (v as u128) & mask(w);
                    Field {
                        pre,
                        pack: format!("{} {}{}{}!", name, if signed { "i" } else { "u" }, w, order),
                        pack_is_bitstr: true,
                        bits: layout(u, w, b),
                        parse: format!("{}{}{}", if signed { "i" } else { "u" }, w, order),
                        want: if signed { format!("{}", sign_extend(u, w)) } else { format!("{}", u) },
                        kind: format!("fixed{}:{}:a{}", order, if b { "big" } else { "little" }, total % 8),
                    }
                }
                11 | 12 => {
                    let w = *rng.pick(&[32usize, 64]);
                    let order = *rng.pick(&["", "le", "be"]);
                    let b = match order {
                        "le" => false,
                        "be" => true,
                        _ => big,
                    };
                    let x: f64 = if w == 32 {
                        let f = match rng.below(6) {
                            0 => 0.0f32,
                            1 => -0.0,
                            2 => f32::INFINITY,
                            3 => f32::MIN_POSITIVE / 4.0,
                            4 => f32::MAX,
                            _ => f32::from_bits(rng.next_u64() as u32),
                        };
                        if f.is_nan() {
                            1.5
                        } else {
                            f as f64
                        }
                    } else {
                        match rng.below(6) {
                            0 => -0.0,
                            1 => f64::NEG_INFINITY,
                            2 => f64::MIN_POSITIVE / 8.0,
                            3 => f64::MAX,
                            _ => {
                                let y = f64::from_bits(rng.next_u64());
                                if y.is_nan() {
                                    2.5
                                } else {
                                    y
                                }
                            }
                        }
                    };
                    let _ = xs.defvar(Xstr::from(name.as_str()), Cell::Real(x));
                    let raw: u128 = if w == 32 { (x as f32).to_bits() as u128 } else { x.to_bits() as u128 };
                    let via_float_word = order.is_empty() && rng.flip();
                    Field {
                        pre,
                        pack: if via_float_word { format!("{} {} float!", name, w) } else { format!("{} f{}{}!", name, w, order) },
                        pack_is_bitstr: true,
                        bits: layout(raw, w, b),
                        parse: if via_float_word { format!("{} float", w) } else { format!("f{}{}", w, order) },
                        want: format!("r{:016x}", x.to_bits()),
                        kind: format!("float{}:{}:a{}", w, if b { "big" } else { "little" }, total % 8),
                    }
                }
                13 | 14 => {
                    // raw bit-string of any length
                    let n = if rng.chance(1, 6) { 0 } else { 1 + rng.below(70) };
                    let n = if rng.chance(1, 3) { n / 8 * 8 } else { n };
                    let bits: Vec<u8> = (0..n).map(|_| (rng.next_u64() & 1) as u8).collect();
                    // half of the raw fields are views into a longer buffer that start at some other bit position
                    // (what reading a chunk from an input gives), the others are values of their own
                    let value = if rng.flip() {
                        let lead = 1 + rng.below(19);
                        let trail = rng.below(11);
                        let mut all: Vec<u8> = (0..lead).map(|_| (rng.next_u64() & 1) as u8).collect();
                        all.extend_from_slice(&bits);
                        all.extend((0..trail).map(|_| (rng.next_u64() & 1) as u8));
                        let mut whole = crate::mon::c12::bits_to_bitstr(&all);
                        let _ = whole.read(lead);
                        obs.count("raw_fields_that_are_views");
                        whole.read(n).unwrap_or_else(Xbitstr::new)
                    } else {
                        crate::mon::c12::bits_to_bitstr(&bits)
                    };
                    let _ = xs.defvar(Xstr::from(name.as_str()), Cell::Bitstr(value));
                    Field {
                        pre,
                        pack: name.clone(),
                        pack_is_bitstr: true,
                        want: format!("|{}|", bits.iter().map(|b| if *b == 1 { '1' } else { '0' }).collect::<String>()),
                        bits,
                        parse: format!("{} bits", n),
                        kind: format!("bits:a{}", total % 8),
                    }
                }
                15 | 16 => {
                    let s = rng.pick_str(&["", "a", "xeh", "caf\u{e9}", "\u{4e16}\u{754c}", "line\nbreak", "q\"uote", "0123456789abcdef"]).to_string();
                    let _ = xs.defvar(Xstr::from(name.as_str()), Cell::from(s.as_str()));
                    Field {
                        pre,
                        pack: name.clone(),
                        pack_is_bitstr: false,
                        bits: bits_of_bytes(s.as_bytes()),
                        parse: format!("{} bytes bitstr>utf8", s.len()),
                        want: format!("{:?}", s),
                        kind: format!("string:a{}", total % 8),
                    }
                }
                17 | 18 => {
                    // a byte value (only meaningful inside a vector)
                    let v = *rng.pick(&[0u8, 255, 1, 128, 127]) ^ (rng.next_u64() as u8 & if rng.flip() { 0xff } else { 0 });
                    Field { pre, pack: format!("{}", v), pack_is_bitstr: false, bits: bits_of_bytes(&[v]), parse: "u8".into(), want: format!("{}", v), kind: format!("byte:a{}", total % 8) }
                }
                _ => {
                    // a nested byte list
                    let n = rng.below(5);
                    let bytes = rng.bytes(n);
                    Field {
                        pre,
                        pack: format!("[ {} ]", bytes.iter().map(|b| b.to_string()).collect::<Vec<_>>().join(" ")),
                        pack_is_bitstr: false,
                        bits: bits_of_bytes(&bytes),
                        parse: format!("{} bytes", n),
                        want: format!("|{}|", bits_of_bytes(&bytes).iter().map(|b| if *b == 1 { '1' } else { '0' }).collect::<String>()),
                        kind: format!("byte-list:a{}", total % 8),
                    }
                }
            };
            total += f.bits.len();
            fields.push(f);
        }
        let expected: Vec<u8> = fields.iter().flat_map(|f| f.bits.iter().cloned()).collect();
        let expected_s: String = expected.iter().map(|b| if *b == 1 { '1' } else { '0' }).collect();
        // ---- program 1: one (possibly nested) vector through >bitstr
        let mut src = String::from("little [ ");
        let mut depth = 0;
        for f in &fields {
            if rng.chance(1, 6) && depth < 3 {
                src.push_str("[ ");
                depth += 1;
            }
            src.push_str(f.pre);
            src.push(' ');
            src.push_str(&f.pack);
            src.push(' ');
            if depth > 0 && rng.chance(1, 3) {
                src.push_str("] ");
                depth -= 1;
            }
        }
        for _ in 0..depth {
            src.push_str("] ");
        }
        src.push_str("] >bitstr");
        let case = format!("{}\n  fields: {}", src, fields.iter().map(|f| format!("{}{}", if f.pre.is_empty() { String::new() } else { format!("{} ", f.pre) }, f.pack)).collect::<Vec<_>>().join(" | "));
        let r = catch(|| xs.eval(&src));
        match r {
            Err((m, l)) => return self.fail(obs, idx, ">bitstr:panic", case, format!("panic {} at {}", m, normalise_loc(&l))),
            Ok(Err(e)) => return self.fail(obs, idx, ">bitstr:error", case, show_err(&e)),
            Ok(Ok(())) => {}
        }
        let packed = match xs.get_data(0).and_then(|c| c.bitstr().ok().cloned()) {
            Some(b) if xs.data_depth() == 1 => b,
            _ => return self.fail(obs, idx, ">bitstr:stack", case, format!("stack depth {} top {:?}", xs.data_depth(), xs.get_data(0).map(show))),
        };
        let got_s = bits_of(&packed);
        if packed.len() != total {
            return self.fail(obs, idx, "length", case, format!("packed {} bits, the field widths add up to {}", packed.len(), total));
        }
        if got_s != expected_s {
            let at = got_s.chars().zip(expected_s.chars()).position(|(a, b)| a != b).unwrap_or(0);
            let mut acc = 0;
            let mut which = String::new();
            for f in &fields {
                if at < acc + f.bits.len() {
                    which = format!("{} ({})", f.pack, f.kind);
                    break;
                }
                acc += f.bits.len();
            }
            return self.fail(obs, idx, "layout", case, format!("first differing bit {} lies in field {}\n got: {}\nwant: {}", at, which, truncate(&got_s, 400), truncate(&expected_s, 400)));
        }
        obs.count("records_packed");
        // ---- parse it back
        let mut psrc = String::from("little open-bitstr ");
        for f in &fields {
            psrc.push_str(f.pre);
            psrc.push(' ');
            psrc.push_str(&f.parse);
            psrc.push(' ');
        }
        psrc.push_str("remain close-bitstr");
        let r = catch(|| xs.eval(&psrc));
        match r {
            Err((m, l)) => return self.fail(obs, idx, "parse:panic", format!("{}\n  {}", case, psrc), format!("panic {} at {}", m, normalise_loc(&l))),
            Ok(Err(e)) => return self.fail(obs, idx, "parse:error", format!("{}\n  {}", case, psrc), show_err(&e)),
            Ok(Ok(())) => {}
        }
        let n = xs.data_depth();
        let got: Vec<String> = (0..n).rev().filter_map(|i| xs.get_data(i).map(show_untagged)).collect();
        let mut want: Vec<String> = fields.iter().map(|f| f.want.clone()).collect();
        want.push("0".into());
        if got != want {
            let at = got.iter().zip(want.iter()).position(|(a, b)| a != b).unwrap_or(got.len().min(want.len()));
            let which = fields.get(at).map(|f| format!("{} / {} ({})", f.pack, f.parse, f.kind)).unwrap_or_else(|| "remain".into());
            return self.fail(obs, idx, if at == fields.len() { "remain" } else { "round-trip" }, format!("{}\n  {}", case, psrc), format!("value #{} ({}): got {:?} expected {:?}", at, which, got.get(at), want.get(at)));
        }
        obs.count("records_parsed_back");
        for f in &fields {
            obs.see("field_kinds", &f.kind);
            obs.count(&format!("field:{}", f.kind.split(':').next().unwrap_or("")));
        }
        while xs.data_depth() > 0 {
            let _ = xs.pop_data();
        }
        // ---- program 2: the same fields split across several emit calls, output interception on
        let cuts = rng.below(nfields.min(6) + 1);
        let mut cut_at: Vec<usize> = (0..cuts).map(|_| rng.below(nfields + 1)).collect();
        cut_at.push(nfields);
        cut_at.sort();
        cut_at.dedup();
        // the emit calls arrive in one source text or one text per call; the embedder may switch interception on again
        // while it already is on (that keeps what was captured)
        let piecewise = rng.flip();
        let mut pieces: Vec<String> = vec![String::from("little ")];
        let mut start = 0;
        for c in &cut_at {
            let chunk = &fields[start..*c];
            let mut p = String::new();
            if chunk.len() == 1 && chunk[0].pack_is_bitstr && rng.flip() {
                p.push_str(&format!("{} {} emit ", chunk[0].pre, chunk[0].pack));
            } else {
                p.push_str("[ ");
                for f in chunk {
                    p.push_str(&format!("{} {} ", f.pre, f.pack));
                }
                p.push_str("] >bitstr emit ");
            }
            pieces.push(p);
            start = *c;
        }
        pieces.push("output output-length".into());
        let mut esrc = String::new();
        if piecewise {
            for p in &pieces {
                if rng.chance(1, 3) {
                    esrc.push_str("<intercept_output(true) again> ");
                    obs.count("emit:interception_switched_on_again");
                    if let Err(e) = xs.intercept_output(true) {
                        return self.fail(obs, idx, "emit:error", esrc, show_err(&e));
                    }
                }
                esrc.push_str(p);
                esrc.push_str(" <next eval> ");
                match catch(|| xs.eval(p)) {
                    Err((m, l)) => return self.fail(obs, idx, "emit:panic", esrc, format!("panic {} at {}", m, normalise_loc(&l))),
                    Ok(Err(e)) => return self.fail(obs, idx, "emit:error", esrc, show_err(&e)),
                    Ok(Ok(())) => {}
                }
            }
            obs.count("emit_sequences:one_eval_per_call");
        } else {
            esrc = pieces.join("");
            let r = catch(|| xs.eval(&esrc));
            match r {
                Err((m, l)) => return self.fail(obs, idx, "emit:panic", esrc, format!("panic {} at {}", m, normalise_loc(&l))),
                Ok(Err(e)) => return self.fail(obs, idx, "emit:error", esrc, show_err(&e)),
                Ok(Ok(())) => {}
            }
        }
        let out = xs.get_data(1).and_then(|c| c.bitstr().ok().map(bits_of));
        let len = xs.get_data(0).map(show);
        if out.as_deref() != Some(expected_s.as_str()) {
            return self.fail(obs, idx, "emit:output", esrc, format!("output is {:?}\nexpected  {:?}", out.map(|s| truncate(&s, 300)), truncate(&expected_s, 300)));
        }
        if len != Some(format!("{}", total)) {
            return self.fail(obs, idx, "emit:output-length", esrc, format!("output-length {:?}, {} bits were emitted", len, total));
        }
        obs.count("emit_sequences");
        obs.add("emit_calls", cut_at.len() as u64);
        obs.add("evaluations", 1);
        obs.maxi("max_fields", nfields as u64);
        obs.maxi("max_record_bits", total as u64);
        obs.shape(fnv1a(fields.iter().map(|f| f.kind.clone()).collect::<Vec<_>>().join(",").as_bytes()) ^ fnv1a(expected_s.as_bytes()));
        if idx % 2999 == 0 {
            obs.sample(J::obj(vec![("pack", J::s(truncate(&src, 300))), ("parse", J::s(truncate(&psrc, 300))), ("emit", J::s(truncate(&esrc, 300)))]));
        }
    }
    fn boot_mut(&mut self) -> Option<&mut Xstate> {
        Some(&mut self.boot)
    }
    fn describe(&mut self, idx: u64) -> String {
        format!("pack/parse record #{}", idx)
    }
}
