//! C15 — how a program is driven does not change what it does.
//! Oracle: six-way twin comparison {eval, compile+run, compile+step*} x {recording off, on}.
use super::Monitor;
use crate::g2::gen_g2;
use crate::mon::c01::gen_case;
use crate::render::*;
use crate::util::*;
use crate::Args;
use xeh::prelude::*;

pub struct C15 {
    seed: u64,
    boot: Xstate,
}

pub fn template() -> Xstate {
    let mut boot = Xstate::boot().expect("boot");
    boot.intercept_stdout(true);
    boot.intercept_output(true).expect("intercept output");
    boot
}

impl C15 {
    pub fn new(a: &Args) -> C15 {
        C15 { seed: a.seed, boot: template() }
    }
}

/// everything the statement compares: result/error, visible stack, every variable, output
pub fn observation(xs: &mut Xstate, r: &Result<Result<(), Xerr>, (String, String)>) -> (String, String) {
    let res = match r {
        Ok(Ok(())) => "ok".to_string(),
        Ok(Err(e)) => format!("error {}", show_err(e)),
        Err((m, l)) => format!("PANIC {} at {}", m, normalise_loc(l)),
    };
    let mut s = String::new();
    s.push_str(&res);
    s.push_str("\nstack:");
    let n = xs.data_depth();
    for i in (0..n).rev() {
        if let Some(c) = xs.get_data(i) {
            s.push(' ');
            s.push_str(&show(c));
        }
    }
    s.push_str("\nvars:");
    for (name, val) in xs.var_list() {
        if matches!(val, Cell::AnyRc(_)) {
            continue;
        }
        s.push_str(&format!(" {}={};", name, show(val)));
    }
    s.push_str("\nstdout:");
    s.push_str(&xs.read_stdout().unwrap_or_default());
    (res, s)
}

pub const MODES: [&str; 3] = ["eval", "compile+run", "compile+step"];

pub fn drive(xs: &mut Xstate, src: &str, mode: usize) -> Result<Result<(), Xerr>, (String, String)> {
    catch(|| match mode {
        0 => xs.eval(src),
        1 => {
            xs.compile(src)?;
            xs.run()
        }
        _ => {
            xs.compile(src)?;
            let mut guard = 0u64;
            while xs.is_running() {
                xs.next()?;
                guard += 1;
                if guard > 5_000_000 {
                    return Err(Xerr::ErrorMsg(Xstr::from("harness: step guard")));
                }
            }
            Ok(())
        }
    })
}

impl C15 {
    fn gen(&self, idx: u64) -> (String, Vec<u8>, String) {
        if idx % 2 == 0 {
            let c = gen_case("C15", self.seed, idx);
            (c.rendered.src, vec![1, 2, 3, 4], format!("g1:{}", c.profile))
        } else {
            let mut rng = Rng::for_case("C15g2", self.seed, idx);
            let (src, input, feats) = gen_g2(&mut rng, 60, true);
            (src, input, format!("g2:{}", feats.join(",")))
        }
    }
}

impl Monitor for C15 {
    fn run_case(&mut self, idx: u64, obs: &mut Obs) {
        let (mut src, input, kind) = self.gen(idx);
        let mut base = self.boot.clone();
        base.set_binary_input(Xbitstr::from(input)).expect("input");
        if idx % 3 != 0 {
            // an earlier program has run on this interpreter: values are on the stack, a word and a variable exist, an
            // immediate word that reads a variable exists (and is used by this program), the earlier program ended with exit
            let v = ((idx / 3) % 6) as usize;
            let earlier = ["11 \"pre\" [ 3 ]", "7", ": earlier 1 + ; 5 var earlier-v 2 3", "5 var imm-v : imm-w immediate imm-v 1 + ; 8", "1 2 0 exit 3", ": q-w 9 exit ; 4 q-w 5"][v];
            let _ = catch(|| base.eval(earlier));
            let _ = base.read_stdout();
            if v == 3 {
                src = format!("imm-w {} imm-w", src);
                obs.count("programs_using_an_immediate_word_that_reads_a_variable");
            }
            if v >= 4 {
                obs.count("programs_after_a_program_that_called_exit");
            }
            obs.count("programs_after_an_earlier_program");
        }
        let limit = [40_000usize, 3_000, 257, 52][(idx % 4) as usize];
        let _ = base.set_insn_limit(Some(limit));
        // mostly far away; sometimes just above what is on the stack already, so that pushes made while the source is
        // built (immediate words, meta blocks) and pushes made while it runs meet the same limit in every drive mode
        let d = base.verif_dump();
        let depth = d.data_hidden.len() + d.data_visible.len();
        let tight = idx % 5 == 2;
        let _ = base.set_stack_limit(Some(if tight { depth + 1 + (idx / 5 % 3) as usize } else { 100_000 }));
        if tight {
            obs.count("programs_under_a_tight_stack_limit");
        }
        let mut first: Option<(String, String)> = None;
        let mut results = Vec::new();
        'outer: for rec in [false, true] {
            for mode in 0..3 {
                if !results.is_empty() && hit_limit(&results) {
                    break 'outer;
                }
                let mut xs = base.clone();
                xs.set_recording_enabled(rec);
                let r = drive(&mut xs, &src, mode);
                let (res, o) = observation(&mut xs, &r);
                if rec {
                    for step in xs.reverse_log.as_ref().map(|l| l.as_slice()).unwrap_or(&[]) {
                        let s = format!("{:?}", step);
                        let name = s.split(|c| c == '(' || c == ' ').next().unwrap_or("").to_string();
                        obs.see("reverse_step_variants", &name);
                    }
                    if mode == 1 {
                        crate::g1run::code_stats(&xs, obs);
                    }
                }
                results.push((rec, mode, res, o));
            }
        }
        if hit_limit(&results) {
            obs.skipped += 1;
            obs.count("skipped:limit");
            return;
        }
        for (rec, mode, res, o) in &results {
            match &first {
                None => first = Some((res.clone(), o.clone())),
                Some((_, fo)) => {
                    if fo != o {
                        let what = if res.starts_with("PANIC") { "panic" } else if fo.lines().next() != o.lines().next() { "result" } else { "state" };
                        obs.violation(Violation {
                            class: format!("{}:{}:{}", what, MODES[*mode], if *rec { "recording" } else { "plain" }),
                            sig: format!("C15:{}:{}:{}", what, MODES[*mode], if *rec { "recording" } else { "plain" }),
                            index: idx,
                            case: src.clone(),
                            detail: format!("eval/plain observed:\n{}\n--- {}/{} observed:\n{}", truncate(fo, 1500), MODES[*mode], if *rec { "recording" } else { "plain" }, truncate(o, 1500)),
                        });
                        break;
                    }
                }
            }
        }
        let res0 = &results[0].2;
        if res0.starts_with("PANIC") {
            obs.violation(Violation { class: "panic".into(), sig: format!("C15:panic:{}", normalise_msg(res0)), index: idx, case: src.clone(), detail: res0.clone() });
        }
        obs.count(if res0 == "ok" { "programs_ok" } else { "programs_failing" });
        if res0.contains("insn limit") {
            obs.count("programs_stopped_by_insn_limit_compared");
        }
        if res0 != "ok" {
            let k: String = res0.split(|c| c == '(' || c == '{' || c == '"').next().unwrap_or("").trim().to_string();
            obs.see("error_kinds_compared", &k);
        }
        for f in kind.split(|c| c == ':' || c == ',') {
            if !f.is_empty() {
                obs.see("features", f);
            }
        }
        obs.shape(fnv1a(src.split_whitespace().filter(|w| !w.chars().next().map(|c| c.is_ascii_digit() || c == '-' || c == '"').unwrap_or(false)).collect::<Vec<_>>().join(" ").as_bytes()));
        obs.add("drive_runs", 6);
        if idx % 1499 < 2 {
            obs.sample(J::obj(vec![("kind", J::s(kind)), ("source", J::s(src))]));
        }
    }
    fn describe(&mut self, idx: u64) -> String {
        let (src, input, kind) = self.gen(idx);
        format!("[{}] input={:02x?}\n{}", kind, input, src)
    }
}

fn hit_limit(results: &[(bool, usize, String, String)]) -> bool {
    // the instruction budget is part of the configuration and is metered identically in every drive mode, so programs
    // that run into it are compared as well; only the harness's own step guard makes a case inconclusive
    results.iter().any(|r| r.2.contains("step guard"))
}

pub fn truncate(s: &str, n: usize) -> String {
    if s.len() <= n {
        s.to_string()
    } else {
        let mut k = n;
        while !s.is_char_boundary(k) {
            k -= 1;
        }
        format!("{} ...", &s[..k])
    }
}
