//! C08 — no source text, input or API call sequence can crash the interpreter.
//! Oracle: process-level trap monitor. Every API call runs inside catch_unwind (panic hook records message + location);
//! the driver watches the worker's exit status, so aborts and signals are attributed to the case in flight.
//! Verdict per call is binary: it returned (a value or an error value), or it did not.
use super::Monitor;
use crate::mon::c12::{bits_to_bitstr, gen_scalar, to_cell, MV};
use crate::mon::c15::truncate;
use crate::render::*;
use crate::util::*;
use crate::Args;
use xeh::prelude::*;

pub struct C08 {
    seed: u64,
    boot: Xstate,
    boot_d2: Xstate,
    words: Vec<(String, String)>,
    long_lived: Option<Xstate>,
    scratch: String,
}

const ALLOC_SIZE_WORDS: &[&str] = &["random-bits", "int!", "uint!", "d2-resize"];
const PATH_WORDS: &[&str] = &["read-all", "write-all", "exec-piped"];

impl C08 {
    pub fn new(a: &Args) -> C08 {
        let mut boot = Xstate::boot().expect("boot");
        boot.intercept_stdout(true);
        boot.intercept_output(true).expect("intercept output");
        boot.set_binary_input(Xbitstr::from(vec![0x12u8, 0x34, 0x00, 0x78, 0x9a, 0xbc, 0xde, 0xf0, 0x41, 0x00, 0xff])).expect("input");
        let _ = boot.set_insn_limit(Some(3_000));
        let _ = boot.set_stack_limit(Some(256));
        let mut boot_d2 = boot.clone();
        xeh::d2_plugin::load(&mut boot_d2).expect("d2");
        let words: Vec<(String, String)> = boot_d2.verif_dict().into_iter().map(|(n, k)| (n.to_string(), k.to_string())).collect();
        let scratch = format!("/verif/target/scratch/c08-{}-{}", std::process::id(), a.shard);
        let _ = std::fs::create_dir_all(&scratch);
        write_scratch(&format!("{}/ok.xeh", scratch), "1 2 + drop : from-file 3 ;\n".as_bytes());
        write_scratch(&format!("{}/bad.xeh", scratch), "1 2 + nosuch-in-file\n".as_bytes());
        write_scratch(&format!("{}/data.bin", scratch), &[1u8, 2, 3, 0, 255]);
        C08 { seed: a.seed, boot, boot_d2, words, long_lived: None, scratch }
    }
}

impl Drop for C08 {
    fn drop(&mut self) {
        let _ = std::fs::remove_dir_all(&self.scratch);
    }
}

pub const ARG_CLASSES: &[&str] = &[
    "nil", "true", "false", "0", "1", "-1", "small", "2^63", "2^64", "i128max", "i128min", "isize-min", "isize-max", "usize-max", "real", "nan", "inf", "neg-real",
    "empty-str", "str", "str-75-multibyte", "num-str", "hexish-str", "empty-bits", "bits-aligned", "bits-odd", "bits-sliced", "empty-vec", "vec", "vec-nested", "vec-long", "vec-long-mixed", "empty-map",
    "map", "tagged-int", "tagged-fmt-handmade", "tagged-str", "read-result", "fun",
];

fn long_multibyte(rng: &mut Rng) -> String {
    // 70..80 bytes with multi-byte characters around the 75-byte elision boundary
    let mut s = String::new();
    let lead = 70 + rng.below(6);
    while s.len() < lead {
        s.push(if rng.chance(1, 5) { '\u{e9}' } else { 'a' });
    }
    for _ in 0..2 + rng.below(4) {
        s.push(*rng.pick(&['\u{4e16}', '\u{e9}', '\u{1f600}', 'z']));
    }
    s
}

impl C08 {
    fn gen_arg(&self, rng: &mut Rng, class: &str, xs: &Xstate) -> Cell {
        match class {
            "nil" => Cell::Nil,
            "true" => Cell::Flag(true),
            "false" => Cell::Flag(false),
            "0" => Cell::Int(0),
            "1" => Cell::Int(1),
            "-1" => Cell::Int(-1),
            "small" => Cell::Int(rng.range(2, 130) as i128),
            "2^63" => Cell::Int((1i128 << 63) - rng.below(2) as i128),
            "2^64" => Cell::Int((1i128 << 64) - 1 + rng.below(3) as i128),
            "i128max" => Cell::Int(i128::MAX),
            "i128min" => Cell::Int(i128::MIN),
            "isize-min" => Cell::Int(isize::MIN as i128),
            "isize-max" => Cell::Int(isize::MAX as i128),
            "usize-max" => Cell::Int(usize::MAX as i128),
            "real" => Cell::Real(*rng.pick(&[0.0, 1.5, 1e300, 5e-324, 2.5, 1e19, 255.0])),
            "neg-real" => Cell::Real(*rng.pick(&[-0.0, -1.5, -1e300, -1e19, -0.5])),
            "nan" => Cell::Real(f64::NAN),
            "inf" => Cell::Real(if rng.flip() { f64::INFINITY } else { f64::NEG_INFINITY }),
            "empty-str" => Cell::from(""),
            "str" => Cell::from(rng.pick_str(&["a", "abc def", "caf\u{e9}", "\u{4e16}\u{754c}", "12", "ff", "1.5", "-", "\n", "\"", "QUJD", "#fmt", "offset"])),
            "str-75-multibyte" => Cell::from(long_multibyte(rng).as_str()),
            "num-str" => Cell::from(rng.pick_str(&["255", "-1", "1e400", "1.5.5", "0x10", "", "99999999999999999999999999999999999999999", "1_0", ".", "+"])),
            "hexish-str" => {
                // hex digits, blanks of every kind (ASCII and multi-byte) and characters that are neither
                let mut t = String::new();
                for _ in 0..1 + rng.below(8) {
                    t.push_str(rng.pick_str(&["a", "F", "0", "12", "g", "z", " ", "\t", "\u{a0}", "\u{2003}", "\u{3000}", "\u{e9}", "\n", "x", ".", "|"]));
                }
                Cell::from(t.as_str())
            }
            "empty-bits" => Cell::Bitstr(Xbitstr::new()),
            "bits-aligned" => {
                let n = 1 + rng.below(40);
                Cell::Bitstr(Xbitstr::from(rng.bytes(n)))
            }
            "bits-odd" => Cell::Bitstr(bits_to_bitstr(&(0..1 + rng.below(300)).map(|_| (rng.next_u64() & 1) as u8).collect::<Vec<_>>())),
            "bits-sliced" => {
                let nb = 6 + rng.below(40);
                let mut b = Xbitstr::from(rng.bytes(nb));
                let _ = b.read(1 + rng.below(15));
                let n = rng.below(b.len() + 1);
                Cell::Bitstr(b.read(n).unwrap_or_else(Xbitstr::new))
            }
            "empty-vec" => Cell::Vector(Xvec::new()),
            "vec" => to_cell(&MV::Vec((0..1 + rng.below(5)).map(|_| gen_scalar(rng)).collect()), &mut None),
            "vec-nested" => {
                let mut c = Cell::Vector(Xvec::new());
                for _ in 0..1 + rng.below(40) {
                    let mut v = Xvec::new();
                    v.push_back_mut(c);
                    c = Cell::Vector(v);
                }
                c
            }
            "vec-long-mixed" => {
                // long enough for the library sort to notice an inconsistent order: values of several types, NaN, duplicates
                let mut v = Xvec::new();
                for i in 0..21 + rng.below(60) {
                    v.push_back_mut(match rng.below(7) {
                        0 => Cell::Int(rng.range(-5, 5) as i128),
                        1 => Cell::from(rng.pick_str(&["a", "b", "", "zz"])),
                        2 => Cell::Real(*rng.pick(&[0.5, -1.0, f64::NAN, f64::INFINITY, -0.0])),
                        3 => Cell::Nil,
                        4 => Cell::Flag(rng.flip()),
                        5 => Cell::from(xeh::xeh_vec![i as i128 % 3]),
                        _ => Cell::Int(i as i128),
                    });
                }
                Cell::from(v)
            }
            "vec-long" => to_cell(&MV::Vec((0..12 + rng.below(40)).map(|i| MV::Int(i as i128)).collect()), &mut None),
            "empty-map" => Cell::Map(Xmap::new()),
            "map" => {
                let mut m = Xmap::new();
                for _ in 0..1 + rng.below(14) {
                    m.insert_mut(to_cell(&gen_scalar(rng), &mut None), to_cell(&gen_scalar(rng), &mut None));
                }
                Cell::Map(m)
            }
            "tagged-int" => Cell::Int(rng.range(-5, 300) as i128).insert_tag(Cell::from("k"), Cell::Int(1)),
            "tagged-fmt-handmade" => {
                // a hand-made formatting tag: any value at all
                let v = match rng.below(8) {
                    0 => Cell::Int(0),
                    1 => Cell::Int(1),
                    2 => Cell::Int(37),
                    3 => Cell::Int(i128::MAX),
                    4 => Cell::Int(-1),
                    5 => Cell::from("x"),
                    6 => Cell::Int(0xfff),
                    _ => Cell::Int(rng.below(70000) as i128),
                };
                let base = match rng.below(4) {
                    0 => Cell::Int(255),
                    1 => Cell::from("ff"),
                    2 => Cell::Int(-255),
                    _ => to_cell(&MV::Vec(vec![MV::Int(10), MV::Str("ff".into())]), &mut None),
                };
                base.insert_tag(Cell::from("#fmt"), v)
            }
            "tagged-str" => Cell::from(rng.pick_str(&["ff", "zz", "12", ""])).insert_tag(Cell::from("#fmt"), Cell::Int(*rng.pick(&[16i128, 2, 8, 1, 0, 36, 37]))),
            "read-result" => {
                let mut x = xs.clone();
                let _ = catch(|| x.eval(rng.pick_str(&["u8", "i16be", "3 uint", "f32", "16 bits"])));
                x.get_data(0).cloned().unwrap_or(Cell::Nil)
            }
            _ => {
                let mut x = xs.clone();
                let _ = catch(|| x.eval(": fn-arg 1 ;"));
                Cell::Int(7)
            }
        }
    }

    fn violation(&self, obs: &mut Obs, idx: u64, api: &str, case: String, m: &str, l: &str) {
        let loc = normalise_loc(l);
        if m.contains("capacity overflow") && loc.starts_with("std:") {
            // a Vec was asked for more than isize::MAX bytes: an allocation that is not modest (the statement's own proviso)
            obs.count("excluded_alloc_not_modest(capacity overflow)");
            return;
        }
        obs.violation(Violation {
            class: format!("panic:{}", api),
            sig: format!("panic@{}:{}", loc, normalise_msg(m)),
            index: idx,
            case,
            detail: format!("{} panicked: {} at {}", api, m, loc),
        });
    }

    /// after any call: every error-formatting and value-formatting entry point must also return
    fn aftermath(&self, obs: &mut Obs, idx: u64, xs: &mut Xstate, case: &str, res: &Result<(), Xerr>) -> bool {
        if let Err(e) = res {
            obs.see("xerr_variants", &format!("{:?}", e).split(|c| c == '(' || c == ' ' || c == '{').next().unwrap_or("").to_string());
            if let Err((m, l)) = catch(|| format!("{} / {:?}", e, e)) {
                self.violation(obs, idx, "Display for Xerr", case.to_string(), &m, &l);
                return false;
            }
            obs.count("call:fmt-error");
        }
        if let Err((m, l)) = catch(|| xs.pretty_error()) {
            self.violation(obs, idx, "pretty_error", case.to_string(), &m, &l);
            return false;
        }
        if let Err((m, l)) = catch(|| xs.last_err_location().map(|l| format!("{:?}", l))) {
            self.violation(obs, idx, "last_err_location", case.to_string(), &m, &l);
            return false;
        }
        obs.count("call:pretty_error");
        let n = xs.data_depth().min(6);
        for i in 0..n {
            let c = xs.get_data(i).cloned().unwrap_or(Cell::Nil);
            if let Err((m, l)) = catch(|| xs.format_cell(&c).map(|s| s.len())) {
                self.violation(obs, idx, "format_cell", format!("{}\n  value: {}", case, truncate(&show(&c), 300)), &m, &l);
                return false;
            }
            if let Err((m, l)) = catch(|| xs.format_cell_safe(&c).map(|s| s.len())) {
                self.violation(obs, idx, "format_cell_safe", format!("{}\n  value: {}", case, truncate(&show(&c), 300)), &m, &l);
                return false;
            }
            obs.count("call:format_cell");
        }
        true
    }

    fn call(&self, obs: &mut Obs, idx: u64, xs: &mut Xstate, api: &str, case: &str, src: &str) -> Option<Result<(), Xerr>> {
        let r = match api {
            "eval" => catch(|| xs.eval(src)),
            "compile" => catch(|| xs.compile(src)),
            "run" => catch(|| xs.run()),
            "next" => catch(|| xs.next()),
            _ => catch(|| xs.rnext()),
        };
        obs.count(&format!("call:{}", api));
        match r {
            Err((m, l)) => {
                self.violation(obs, idx, api, case.to_string(), &m, &l);
                None
            }
            Ok(res) => {
                obs.count(if res.is_ok() { "outcome:ok" } else { "outcome:error" });
                if !self.aftermath(obs, idx, xs, case, &res) {
                    return None;
                }
                Some(res)
            }
        }
    }

    // ------------------------------------------------------------------ kind A: every word x argument classes
    fn word_case(&mut self, idx: u64, obs: &mut Obs) {
        let mut rng = Rng::for_case("C08w", self.seed, idx);
        let (word, kind) = self.words[(idx / 4) as usize % self.words.len()].clone();
        if small() && (PATH_WORDS.contains(&word.as_str()) || word == "include" || word == "require") {
            // the Miri interpreter cannot spawn processes and the file words add nothing there
            return;
        }
        let d2 = word.starts_with("d2-");
        // the canvas object is shared by clones (C03's known finding): every case gets a canvas of its own
        let mut xs = self.boot.clone();
        if d2 {
            let _ = xeh::d2_plugin::load(&mut xs);
        }
        let recording = rng.chance(1, 3);
        xs.set_recording_enabled(recording);
        let arity = rng.below(4);
        let mut classes = vec![];
        let mut args = vec![];
        for _ in 0..arity {
            let c = *rng.pick(ARG_CLASSES);
            classes.push(c);
            args.push(self.gen_arg(&mut rng, c, &xs));
        }
        // allocation sizes stay modest, file / exec words only see scratch paths
        if ALLOC_SIZE_WORDS.contains(&word.as_str()) {
            for a in args.iter_mut() {
                if let Cell::Int(i) = a.value() {
                    if *i > 65_536 {
                        *a = Cell::Int(*i % 65_537);
                    }
                }
            }
        }
        if PATH_WORDS.contains(&word.as_str()) {
            if let Some(last) = args.last_mut() {
                if matches!(last.value(), Cell::Str(_)) {
                    let p = match word.as_str() {
                        "exec-piped" => rng.pick_str(&["/bin/cat", "/nonexistent/prog", "/verif"]).to_string(),
                        _ => format!("{}/{}", self.scratch, rng.pick_str(&["data.bin", "out.bin", "missing.bin", "sub/dir/x"])),
                    };
                    *last = Cell::from(p.as_str());
                }
            }
        }
        // immediate words take their operands from the source text
        let src = if kind == "immediate" {
            let follow = match word.as_str() {
                "include" | "require" => format!("\"{}/{}\"", self.scratch, rng.pick_str(&["ok.xeh", "bad.xeh", "missing.xeh"])),
                _ => rng.pick_str(&["", "name1", "dup", "5", "\"s\"", "\\ comment", "[", "]", "{", "^", "&", "name1 name2", "#)", ";", "\\( c \\)", "|FF|", "1.5", "nil"]).to_string(),
            };
            let lead = rng.pick_str(&["", "1 ", ": w ", "#( ", "[ ", "true if ", "3 0 do ", "5 case ", "[ 1 2 ] let [ ", "{ 1 \"k\" } let { \"k\" ", "1 let "]);
            format!("{}{} {}", lead, word, follow)
        } else {
            word.clone()
        };
        for a in &args {
            let _ = xs.push_data(a.clone());
        }
        let case = format!("{} with [{}] (classes {:?}){}", src, truncate(&show_vec(&args), 400), classes, if recording { " recording" } else { "" });
        let style = rng.below(3);
        let res = match style {
            0 => self.call(obs, idx, &mut xs, "eval", &case, &src),
            _ => match self.call(obs, idx, &mut xs, "compile", &case, &src) {
                None => return,
                Some(Err(e)) => Some(Err(e)),
                Some(Ok(())) => {
                    if style == 1 {
                        self.call(obs, idx, &mut xs, "run", &case, &src)
                    } else {
                        let mut last = Some(Ok(()));
                        let mut guard = 0;
                        while xs.is_running() && guard < 50 {
                            guard += 1;
                            last = self.call(obs, idx, &mut xs, "next", &case, &src);
                            if !matches!(last, Some(Ok(()))) {
                                break;
                            }
                        }
                        last
                    }
                }
            },
        };
        if res.is_none() {
            return;
        }
        if recording {
            for _ in 0..1 + rng.below(4) {
                if self.call(obs, idx, &mut xs, "rnext", &case, &src).is_none() {
                    return;
                }
            }
        }
        obs.see("words_reached", &word);
        obs.see(&format!("arity{}_class_tuples", arity), &classes.join(","));
        obs.add("evaluations", 1);
        obs.shape(fnv1a(format!("{}|{}|{}", word, classes.join(","), style).as_bytes()));
        if idx % 9973 < 2 {
            obs.sample(J::obj(vec![("kind", J::s("word x argument classes")), ("case", J::s(truncate(&case, 300)))]));
        }
    }

    // ------------------------------------------------------------------ kind B/C: token soup, fresh or long-lived interpreter
    fn soup(&self, rng: &mut Rng) -> String {
        let mut s = String::new();
        // a source is built completely before any of it runs, and one bad token rejects all of it: half of the soups are
        // short and two thirds avoid the tokens that cannot build (so that what the others contain also gets executed)
        let runnable = rng.chance(2, 3);
        let n = if rng.flip() { 1 + rng.below(4) } else { 1 + rng.below(if small() { 8 } else { 30 }) };
        for _ in 0..n {
            let mut kind = rng.below(26);
            while runnable && matches!(kind, 12 | 14 | 16 | 17 | 18) {
                kind = rng.below(26);
            }
            match kind {
                0..=9 => {
                    // words whose argument is an allocation size only appear with a modest literal size in soups
                    // (fragments below); with whatever happens to be on the stack they would not be "modest"
                    let mut w = &self.words[rng.below(self.words.len())].0;
                    while ALLOC_SIZE_WORDS.contains(&w.as_str()) {
                        w = &self.words[rng.below(self.words.len())].0;
                    }
                    s.push_str(w)
                }
                10 | 11 => s.push_str(rng.pick_str(&["0", "1", "-1", "9223372036854775807", "9223372036854775808", "18446744073709551615", "18446744073709551616", "170141183460469231731687303715884105727", "-170141183460469231731687303715884105728", "170141183460469231731687303715884105728", "0x7fffffffffffffff", "0b1", "-0", "1.5", "1e309.0", "255", "8", "64", "128", "129"])),
                12 => s.push_str(rng.pick_str(&["12x", "0x", "1.2.3", "\"unterminated", "|12 3", "|1G|", "\"bad\\q\"", "\"glued\"x", "\\( open", "0b2", "--1"])),
                13 => s.push_str(rng.pick_str(&["\"s\"", "\"caf\u{e9}\"", "\"\"", "|FF|", "||", "|x.x|", "[ 1 2 ]", "{ 1 \"k\" }", "nil", "true", "[ ]", "{ }"])),
                14 => s.push_str(rng.pick_str(&["\u{e9}", "\u{4e16}\u{754c}", "\u{1f600}", "\u{a0}", "\u{2028}", "\u{301}"])),
                15 => {
                    if rng.flip() {
                        s.push_str(&format!("\"{}\"", long_multibyte(rng)))
                    } else {
                        // text-decoding words on strings with multi-byte blanks and junk
                        let mut t = String::new();
                        for _ in 0..1 + rng.below(6) {
                            t.push_str(rng.pick_str(&["a", "F", "0", "g", " ", "\u{a0}", "\u{2003}", "\u{e9}", "=", "#"]));
                        }
                        if rng.chance(1, 3) {
                            // Z85-shaped text: whole five-letter groups, the all-marker group, overflowing groups
                            t.clear();
                            for _ in 0..1 + rng.below(4) {
                                t.push_str(rng.pick_str(&["Hello", "World", "#####", "%nSc1", "%%%%%", "00000", "0000#", "####0", "Hel", "$0000"]));
                            }
                        }
                        s.push_str(&format!("\"{}\" {}", t, rng.pick_str(&["hex>bitstr", "base32>", "base64>", "zero85>", "base32hex>", "str>number", ">bitstr"])))
                    }
                }
                16 => s.push_str(rng.pick_str(&[": w", ";", "#(", "#)", "~)", "[", "]", "{", "}", "^{", "^}", "if", "else", "then", "begin", "until", "while", "repeat", "do", "loop", "case", "of", "endof", "endcase", "break", "foreach"])),
                17 => s.push_str(rng.pick_str(&["let", "let [", "let {", "let ^", "&", "local x", "var v", "! v", "const K", "late f", "enum E", "endenum", ":", "=", "immediate", "defined", "see dup", "<name>"])),
                18 => s.push_str(rng.pick_str(&["\\ comment", "\\( c \\)", "\\(", "\\)", "\\"])),
                19 if !small() => s.push_str(&format!("include \"{}/{}\"", self.scratch, rng.pick_str(&["ok.xeh", "bad.xeh", "missing.xeh"]))),
                20 => s.push_str(rng.pick_str(&["^hex", "^bin", "^oct", "^dec", "true fmt/prefix", "true fmt/upcase", "true fmt/tags", "nil fmt/tags"])),
                21 => s.push_str(rng.pick_str(&["u8", "16 bits", "8 seek", "18446744073709551615 uint", "0 int", "129 int", "remain", "offset", "input", "dump", "0 dump-at", "99 dump-at", "|00| find", "|12| magic", "cstr", "nulbytestr", "close-bitstr", "open-bitstr"])),
                22 => s.push_str(rng.pick_str(&["depth", "dup", "drop", "swap", "over", "rot", "print", "println", ".s", "newline"])),
                23 => {
                    // the built-in variables are ordinary variables: anything can be stored into them
                    let v = rng.pick_str(&["0", "-1", "18446744073709551615", "18446744073709551616", "9223372036854775807", "170141183460469231731687303715884105727", "-170141183460469231731687303715884105728", "nil", "\"s\"", "|FF|", "[ 1 ]", "1.5"]).to_string();
                    let var = rng.pick_str(&["offset", "output-length", "input", "output", "big?"]);
                    let then = rng.pick_str(&["|ff| emit", "8 bits", "u8", "remain", "dump", "|0F| find", "open-bitstr", "close-bitstr", "\"ab\" emit", "output-length", "1 u8!", "cstr", "0 seek"]);
                    s.push_str(&format!("{} ! {} {}", v, var, then))
                }
                24 => {
                    let v = rng.pick_str(&["170141183460469231731687303715884105727", "-170141183460469231731687303715884105728", "18446744073709551615", "-1", "nil", "\"s\"", "1.5"]).to_string();
                    s.push_str(&match rng.below(4) {
                        0 => format!("enum E{} {} = A{} : B{} endenum", rng.below(3), v, rng.below(3), rng.below(3)),
                        1 => format!("enum E{} : A {} = B : C : D endenum", rng.below(3), v),
                        2 => format!("enum E{} {} {} = A endenum", rng.below(3), v, v),
                        _ => format!("enum E{} {} : A endenum", rng.below(3), v),
                    })
                }
                _ => s.push_str(rng.pick_str(&["3 0 do 1 0 / loop", "2 0 do 2 0 do nil neg loop loop", "[ 7 8 ] foreach \"s\" neg loop", "I", "J", "K", "4294967296 4294967296 d2-resize 0 0 d2-data", "18446744073709551615 2 d2-resize 1 1 d2-data", "0 0 d2-data", "1 0 /", "1 0 rem", "-170141183460469231731687303715884105728 -1 /", "-170141183460469231731687303715884105728 abs", "[ 1 ] -9223372036854775808 nth", "\"ff\" ^hex str>number", "1 128 bsl", "1 -1 bsr", "99999 random-bits drop", "1 65536 int! drop", "-1 3 uint! drop", "3 4 d2-resize", "0 0 d2-resize", "7 random-bits"])),
            }
            s.push_str(rng.pick_str(&[" ", " ", " ", "\n", "\t", "\r\n", ""]));
        }
        s
    }

    /// a soup of defining and compiling words over a handful of names, nested the way sources nest them: the same name
    /// defined again while its definition is still open, inside and outside meta blocks, closers without openers
    fn defsoup_items(rng: &mut Rng, depth: usize, out: &mut String) {
        const NAMES: &[&str] = &["f", "g", "K", "dup", "x"];
        for _ in 0..1 + rng.below(4) {
            match rng.below(20) {
                0..=2 => out.push_str(rng.pick_str(&["1 ", "0 ", "-1 ", "\"s\" ", "[ 1 2 ] ", "nil ", "170141183460469231731687303715884105727 "])),
                3 | 4 => {
                    out.push_str(rng.pick_str(NAMES));
                    out.push(' ');
                }
                5 | 6 if depth < 3 => {
                    out.push_str("#( ");
                    Self::defsoup_items(rng, depth + 1, out);
                    out.push_str(rng.pick_str(&["#) ", "#) ", "#) ", "~) ", ""]));
                }
                7..=9 if depth < 3 => {
                    out.push_str(&format!(": {} {}", rng.pick_str(NAMES), if rng.chance(1, 5) { "immediate " } else { "" }));
                    Self::defsoup_items(rng, depth + 1, out);
                    out.push_str(rng.pick_str(&["; ", "; ", "; ", "; immediate ", ""]));
                }
                10..=14 => {
                    let d = rng.pick_str(&["const", "const", "var", "local", "late", "!", "&", "defined", "see", "let", "enum", "include"]).to_string();
                    out.push_str(&format!("{} {} ", d, rng.pick_str(NAMES)));
                }
                15 if depth < 3 => {
                    let (a, b) = *rng.pick(&[("[ ", "] "), ("{ ", "} "), ("^{ ", "^} "), ("if ", "then "), ("if ", "else "), ("begin ", "until "), ("do ", "loop "), ("case ", "endcase "), ("of ", "endof "), ("let [ ", "] "), ("foreach ", "loop ")]);
                    out.push_str(a);
                    Self::defsoup_items(rng, depth + 1, out);
                    if rng.chance(5, 6) {
                        out.push_str(b);
                    }
                }
                16 => out.push_str(rng.pick_str(&["; ", "#) ", "] ", "then ", "loop ", "^} ", "} ", "endenum ", "immediate ", "break ", "else "])),
                17 => out.push_str(rng.pick_str(&["depth ", "drop ", "+ ", "collect ", "I ", "J ", "exit ", "call ", "doc\" d\" ", "\\( c \\)", "\\ c\n"])),
                18 => {
                    // a local (or let binding) whose declaration is skipped at run time, read afterwards
                    let n = rng.pick_str(NAMES).to_string();
                    out.push_str(&match rng.below(4) {
                        0 => format!("false if 1 local {} then {} ", n, n),
                        1 => format!("0 0 do 2 local {} loop {} ", n, n),
                        2 => format!("nil case 1 of 3 local {} endof endcase {} ", n, n),
                        _ => format!("false if [ 1 ] let [ {} ] then {} ", n, n),
                    });
                }
                _ => out.push_str(rng.pick_str(&["1 ", "2 "])),
            }
        }
    }

    fn fresh_d2(&self) -> Xstate {
        // the canvas object is shared by clones (C03's known finding): every interpreter gets a canvas of its own
        let mut xs = self.boot.clone();
        let _ = xeh::d2_plugin::load(&mut xs);
        xs
    }

    fn soup_case(&mut self, idx: u64, obs: &mut Obs, long_lived: bool) {
        let mut rng = Rng::for_case("C08s", self.seed, idx);
        let src = if !small() && rng.chance(1, 400) {
            // a failure far to the right on a very long line (error columns beyond 2^16), or far down a long text
            let n = *rng.pick(&[65_530usize, 65_535, 65_536, 65_537, 70_000, 140_000]);
            let pad = if rng.flip() { " ".repeat(n) } else { "\n".repeat(n) };
            obs.count("soups:failure-far-right-or-far-down");
            format!("{}{}", pad, rng.pick_str(&["no-such-word", "1 0 /", "12x", "then", "\"unterminated", "nil 1 +"]))
        } else if rng.chance(1, 3) {
            let mut t = String::new();
            Self::defsoup_items(&mut rng, 0, &mut t);
            obs.count("soups:defining-words");
            t
        } else {
            self.soup(&mut rng)
        };
        let mut xs = if long_lived {
            match self.long_lived.take() {
                Some(x) if rng.chance(49, 50) => x,
                _ => self.fresh_d2(),
            }
        } else {
            self.fresh_d2()
        };
        if rng.chance(1, 4) {
            xs.set_recording_enabled(rng.flip());
        }
        if rng.chance(1, 10) {
            let _ = xs.set_insn_limit(Some(rng.below(3000)));
            let _ = xs.set_stack_limit(Some(1 + rng.below(256)));
        }
        let case = format!("{:?}{}", src, if long_lived { " (on a long-lived interpreter)" } else { "" });
        let ok = (|| -> bool {
            match rng.below(4) {
                0 | 1 => self.call(obs, idx, &mut xs, "eval", &case, &src).is_some(),
                2 => match self.call(obs, idx, &mut xs, "compile", &case, &src) {
                    None => false,
                    Some(Err(_)) => true,
                    Some(Ok(())) => self.call(obs, idx, &mut xs, "run", &case, &src).is_some(),
                },
                _ => match self.call(obs, idx, &mut xs, "compile", &case, &src) {
                    None => false,
                    Some(Err(_)) => true,
                    Some(Ok(())) => {
                        let mut guard = 0;
                        while xs.is_running() && guard < 200 {
                            guard += 1;
                            match self.call(obs, idx, &mut xs, "next", &case, &src) {
                                None => return false,
                                Some(Err(_)) => break,
                                _ => {}
                            }
                            if xs.is_recording() && rng.chance(1, 5) && self.call(obs, idx, &mut xs, "rnext", &case, &src).is_none() {
                                return false;
                            }
                        }
                        true
                    }
                },
            }
        })();
        if !ok {
            return;
        }
        if xs.is_recording() {
            for _ in 0..rng.below(6) {
                if self.call(obs, idx, &mut xs, "rnext", &case, &src).is_none() {
                    return;
                }
            }
        }
        if long_lived {
            // keep memory bounded: a long-lived interpreter is replaced after a while
            let _ = xs.read_stdout();
            // an interpreter that got hold of a giant value (an immodest allocation succeeded) is not carried on:
            // every later case would spend its time formatting it
            let d = xs.verif_dump();
            let giant = d.data_hidden.iter().chain(d.data_visible.iter()).chain(d.heap.iter()).any(|c| match c.value() {
                Cell::Bitstr(b) => b.len() > (1 << 20),
                Cell::Str(s) => s.len() > (1 << 17),
                Cell::Vector(v) => v.len() > 10_000,
                _ => false,
            });
            if giant {
                obs.count("long_lived_dropped:giant_value");
            }
            if !giant && xs.bytecode().len() < 20_000 && d.heap.len() < 5_000 {
                let _ = xs.set_insn_limit(Some(3_000));
                let _ = xs.set_stack_limit(Some(256));
                self.long_lived = Some(xs);
            }
        }
        obs.add("evaluations", 1);
        obs.count(if long_lived { "soups:long-lived" } else { "soups:fresh" });
        obs.shape(fnv1a(src.as_bytes()));
        if idx % 9973 < 2 {
            obs.sample(J::obj(vec![("kind", J::s("token soup")), ("source", J::s(truncate(&src, 300)))]));
        }
    }
}

impl Monitor for C08 {
    fn run_case(&mut self, idx: u64, obs: &mut Obs) {
        match idx % 4 {
            0 | 1 => self.word_case(idx, obs),
            2 => self.soup_case(idx, obs, false),
            _ => self.soup_case(idx, obs, true),
        }
    }
    fn describe(&mut self, idx: u64) -> String {
        match idx % 4 {
            0 | 1 => format!("word x argument classes, word {:?}", self.words[(idx / 4) as usize % self.words.len()].0),
            _ => {
                let mut rng = Rng::for_case("C08s", self.seed, idx);
                let src = if !small() && rng.chance(1, 400) {
                    let n = *rng.pick(&[65_530usize, 65_535, 65_536, 65_537, 70_000, 140_000]);
                    let pad = if rng.flip() { " ".repeat(n) } else { "\n".repeat(n) };
                    format!("{}{}", pad, rng.pick_str(&["no-such-word", "1 0 /", "12x", "then", "\"unterminated", "nil 1 +"]))
                } else if rng.chance(1, 3) {
                    let mut t = String::new();
                    Self::defsoup_items(&mut rng, 0, &mut t);
                    t
                } else {
                    self.soup(&mut rng)
                };
                format!("token soup {:?}", src)
            }
        }
    }
    fn finish(&mut self, obs: &mut Obs) {
        obs.maxi("dictionary_words", self.words.len() as u64);
    }
}
