//! C10 — a source that fails to build has no effect on anything submitted afterwards.
//! Oracle: twin execution. The subject sees `H, R, P1..Pn`, the twin (a fresh interpreter replaying H, not a clone)
//! sees `H, P1..Pn`; every probe observation must be equal, and the dump hook must show the subject unchanged by R.
//! For sources that fail at run time the oracle is self-relative: a probe with known effect must work normally and
//! nothing of the failed source may run again.
use super::Monitor;
use crate::g2::gen_g2;
use crate::mon::c03::full_state;
use crate::mon::c15::{observation, truncate};
use crate::render::*;
use crate::util::*;
use crate::Args;
use xeh::prelude::*;

pub struct C10 {
    seed: u64,
    boot: Xstate,
}

impl C10 {
    pub fn new(a: &Args) -> C10 {
        let mut boot = Xstate::boot().expect("boot");
        boot.intercept_stdout(true);
        boot.intercept_output(true).expect("intercept output");
        boot.set_binary_input(Xbitstr::from(vec![1u8, 2, 3, 4, 5, 6, 7, 8])).expect("input");
        let _ = boot.set_insn_limit(Some(20_000));
        let _ = boot.set_stack_limit(Some(5_000));
        let _ = std::fs::create_dir_all("/verif/target/scratch");
        write_scratch("/verif/target/scratch/c10-bad-include.xeh", "61 62 + drop\n: from-bad-include 1 ;\nnosuch-in-file 63\n: after-in-file 2 ;\n".as_bytes());
        write_scratch("/verif/target/scratch/c10-bad-include2.xeh", "71 drop 0xZZ 72\n".as_bytes());
        write_scratch("/verif/target/scratch/c10-good.xeh", ": from-good 71 ;\n5 var good-var\n".as_bytes());
        C10 { seed: a.seed, boot }
    }
}

fn submit(xs: &mut Xstate, src: &str, style: usize) -> Result<Result<(), Xerr>, (String, String)> {
    catch(|| {
        if style == 0 {
            xs.eval(src)
        } else {
            xs.compile(src)?;
            xs.run()
        }
    })
}

/// which phase rejected it: Some(true) = while building, Some(false) = while running, None = accepted
fn submit_phased(xs: &mut Xstate, src: &str, style: usize) -> (Option<bool>, Result<Result<(), Xerr>, (String, String)>) {
    if style == 0 {
        // eval builds and runs in one call; a build-time rejection leaves no new code behind to tell: use the error kind
        let code_before = xs.bytecode().len();
        let r = catch(|| xs.eval(src));
        let phase = match &r {
            Ok(Ok(())) => None,
            Ok(Err(e)) => Some(is_build_error(e) || xs.bytecode().len() == code_before),
            Err(_) => Some(true),
        };
        (phase, r)
    } else {
        match catch(|| xs.compile(src)) {
            Ok(Ok(())) => {
                let r = catch(|| xs.run());
                let phase = if matches!(r, Ok(Ok(()))) { None } else { Some(false) };
                (phase, r)
            }
            other => (Some(true), other),
        }
    }
}

fn is_build_error(e: &Xerr) -> bool {
    matches!(e, Xerr::UnknownWord(_) | Xerr::ParseError { .. } | Xerr::ExpectingName | Xerr::ExpectingLiteral | Xerr::ControlFlowError { .. })
}

const OPENERS: &[(&str, &str)] = &[
    ("true if 11", "if"),
    ("begin 12", "begin"),
    ("3 0 do 13", "do"),
    ("5 case 5 of 14", "case-of"),
    ("5 case", "case"),
    ("[ 15 16", "vec"),
    ("{ 17 \"k\"", "map"),
    ("9 ^{ 1 \"t\"", "tags"),
    (": halfdef 18", "def"),
    ("#( 19", "meta"),
    ("enum HalfEnum : EA 5 = EB", "enum"),
    (": outerdef true if begin 20", "def+if+begin"),
    ("#( #( 21", "meta+meta"),
    ("[ #( 22", "vec+meta"),
    (": wdef #( 23", "def+meta"),
];

const FAILERS: &[(&str, &str)] = &[
    ("12x", "bad-int"),
    ("0xZZ", "bad-hex"),
    ("1.2.3", "bad-real"),
    ("\"unterminated", "unterminated-string"),
    ("|12 3", "unterminated-bitstr"),
    ("|1G|", "bad-bitstr"),
    ("\"bad\\qescape\"", "bad-escape"),
    ("\"glued\"x", "missing-separator"),
    ("no-such-word", "unknown-word"),
    ("then", "unbalanced-then"),
    ("]", "unbalanced-vec"),
    (";", "unbalanced-def"),
    ("loop", "unbalanced-loop"),
    ("endcase", "unbalanced-endcase"),
    ("#)", "unbalanced-meta"),
    ("repeat", "unbalanced-repeat"),
    ("#( 1 0 / #)", "meta-runtime-error"),
    ("#( no-such-in-meta #)", "meta-unknown-word"),
    ("#( 1 2", "meta-unclosed"),
    ("#( 5 var metavar #)", "meta-var"),
    ("5 const outside-meta", "const-outside-meta"),
    ("! no-such-var", "store-unknown"),
    ("include \"/verif/target/scratch/no-such-file.xeh\"", "include-missing"),
    ("include 5", "include-not-a-string"),
    (":", "def-without-name"),
    ("\\( never closed", "unterminated-comment"),
    ("local", "local-without-name"),
    ("7 ! true", "store-readonly"),
    // a meta block that tries to change a variable of the surroundings: refused, and nothing changed
    ("#( 99 ! hv0 #)", "meta-store-to-outer-variable"),
    ("#( big #)", "meta-changes-byte-order"),
    ("#( 16 ! offset #)", "meta-store-to-builtin-variable"),
    ("#( hv0 1 + ! hv0 #)", "meta-update-outer-variable"),
    // the failing token sits in text that the source itself pushed on top of its own text
    ("#( \"3 nosuch-injected\" ~)", "injected-unknown-word"),
    ("#( \"4 12x 5\" ~)", "injected-bad-literal"),
    ("#( \"[ 1 2\" \"then\" ~)", "injected-unbalanced"),
    ("include \"/verif/target/scratch/c10-bad-include.xeh\"", "include-with-unknown-word"),
    ("require \"/verif/target/scratch/c10-bad-include2.xeh\"", "require-with-bad-literal"),
    // a good file is required, then the source is rejected: the file does not count as loaded
    ("require \"/verif/target/scratch/c10-good.xeh\" from-good no-such-word", "require-good-file-then-unknown-word"),
    ("include \"/verif/target/scratch/c10-good.xeh\" 12x", "include-good-file-then-bad-literal"),
];

const TRAILERS: &[&str] = &[
    "",
    " 777 print",
    " 778 779",
    " : leaked-word 1 ;",
    " 5 var leaked-var",
    " \"LEAK\" println 1 2 3",
    " ] } then ; loop",
    " #( 9 const LEAKED-CONST #)",
    "\n780 print\n: leaked2 2 ; leaked2",
];

fn history_source(rng: &mut Rng, k: usize) -> String {
    match rng.below(9) {
        // sources that fail while running (inside loops, inside a called word): what they leave behind - loop records,
        // frames, stack items - is part of the history too
        7 => rng.pick_str(&["3 0 do I 1 == if nil neg then loop", "[ 4 5 ] foreach 2 0 do 1 0 / loop loop", "1 0 /", "2 0 do 7 0 do I 3 == if \"x\" neg then loop loop"]).to_string(),
        8 => format!(": hf{} {} ; hf{}", k, rng.pick(&["1 0 rem", "3 0 do nil 1 + loop", "local a a 0 /", "4 1 do 2 0 do J 2 == if [ ] 3 nth then loop loop"]), k),
        0 => format!("{} {}", rng.range(-5, 50), rng.range(0, 9)),
        1 => format!(": hw{} {} ;", k, rng.pick(&["1 +", "dup *", "drop 7", "local a a a"])),
        2 => format!("{} var hv{}", rng.range(0, 99), k),
        3 => "[ 1 2 ] \"s\"".to_string(),
        4 => format!("#( {} const HC{} #)", rng.range(0, 9), k),
        5 => {
            let (s, _, _) = gen_g2(rng, 12, false);
            s
        }
        _ => "depth 0 > if drop then".to_string(),
    }
}

fn probe_source(rng: &mut Rng, k: usize) -> (String, &'static str) {
    match rng.below(23) {
        21 => ("from-good".into(), "call-word-of-the-good-file"),
        0 => (format!("{}", rng.range(0, 99)), "push"),
        1 => ("depth".into(), "depth"),
        2 => (format!("{} var pv{} pv{}", rng.range(0, 9), k, k), "var"),
        3 => (format!(": pw{} 2 * ; 21 pw{}", k, k), "def+call"),
        4 => ("true if 1 else 2 then".into(), "if"),
        5 => ("0 3 0 do I + loop".into(), "do-loop"),
        6 => ("#( 6 7 * #)".into(), "meta"),
        7 => ("[ 1 2 3 ] length".into(), "vec"),
        8 => ("leaked-word".into(), "call-leaked-word"),
        9 => ("leaked-var".into(), "read-leaked-var"),
        10 => ("halfdef".into(), "call-half-definition"),
        11 => (rng.pick_str(&["LEAKED-CONST", "from-bad-include", "after-in-file", "leaked2"]).to_string(), "read-leaked-const"),
        12 => ("2 case 1 of 10 endof 2 of 20 endof drop 0 endcase".into(), "case"),
        13 => ("5 begin 1 - dup 0 <= until".into(), "begin-until"),
        14 => ("\"out\" print".into(), "print"),
        15 => ("defined HC0 defined hv0 defined hw0 defined done-before defined before-var defined DONE-CONST defined uses-later 7 collect".into(), "defined"),
        16 => ("HC0".into(), "read-history-const"),
        17 => ("hv0".into(), "read-history-var"),
        18 => ("3 hw0".into(), "call-history-word"),
        19 => (rng.pick_str(&["I", "J", "1 0 do J loop", "big? offset hv0 3 collect"]).to_string(), "loop-index-or-variables"),
        20 => ("require \"/verif/target/scratch/c10-good.xeh\" from-good good-var".into(), "require-the-good-file"),
        _ => ("drop".into(), "drop"),
    }
}

fn bookkeeping(xs: &Xstate) -> String {
    let d = xs.verif_dump();
    format!("mode={} nesting={} pending-flows={} pending-inputs={:?} hidden={} visible={}", d.mode, d.nested, d.flow_len, d.input_unread, d.data_hidden.len(), d.data_visible.len())
}

impl C10 {
    fn fail(&self, obs: &mut Obs, idx: u64, class: String, case: &[String], detail: String) {
        obs.violation(Violation { class: class.clone(), sig: format!("C10:{}", class), index: idx, case: case.join("\n"), detail });
    }

    fn build_case(&mut self, idx: u64, obs: &mut Obs) {
        let mut rng = Rng::for_case("C10", self.seed, idx);
        let mut a = self.boot.clone();
        let mut b = self.boot.clone();
        let mut log: Vec<String> = vec![];
        if rng.chance(1, 3) {
            // with reverse recording on, the undo log must not keep anything of the rejected source either
            a.set_recording_enabled(true);
            b.set_recording_enabled(true);
            log.push("recording on".into());
            obs.count("cases_with_recording");
        }
        // ---- history (both)
        for k in 0..rng.below(6) {
            let src = history_source(&mut rng, k);
            let style = rng.below(2);
            let ra = submit(&mut a, &src, style);
            let rb = submit(&mut b, &src, style);
            log.push(format!("H{} [{}] {}", k, if style == 0 { "eval" } else { "compile+run" }, src));
            match (&ra, &rb) {
                (Ok(Ok(())), Ok(Ok(()))) => {}
                (Ok(Err(ea)), Ok(Err(eb))) if show_err(ea) == show_err(eb) && !src.contains("12x") => {
                    // failed at run time, the same way in both
                    obs.count("history_sources_failing_at_run_time");
                    log.push("   (failed while running)".into());
                }
                _ => {
                    obs.skipped += 1;
                    obs.count("skipped:history-source-failed");
                    return;
                }
            }
            let _ = a.read_stdout();
            let _ = b.read_stdout();
        }
        // ---- the rejected source (subject only)
        let nopen = rng.below(3);
        let mut r = String::new();
        let mut opened = vec![];
        if rng.chance(2, 3) {
            let pre: &str = *rng.pick(&["31 ", "\"pre\" print ", ": done-before 1 ; ", "32 var before-var ", "", "#( 77 const HC0 #) ", "#( 1 2 + #) ", "#( : tmpw 3 ; tmpw const DONE-CONST #) ", "5 var hv0 ", ": hw0 99 ; ", "1 var v1 2 var v2 [ v1 v2 ] ", "late later-word : uses-later later-word ; "]);
            r.push_str(pre);
        }
        for _ in 0..nopen {
            let (o, name) = *rng.pick(OPENERS);
            r.push_str(o);
            r.push(' ');
            opened.push(name);
        }
        let (f, fname) = *rng.pick(FAILERS);
        r.push_str(f);
        let trailer = *rng.pick(TRAILERS);
        r.push_str(trailer);
        let style = rng.below(2);
        let before_full = full_state(&mut a, false);
        let before_book = bookkeeping(&a);
        // an earlier program that failed while running is still suspended at its failing instruction; submitting any
        // source (accepted or not) abandons it, which moves the instruction pointer: later sources cannot tell
        let suspended = a.is_running();
        let (phase, res) = submit_phased(&mut a, &r, style);
        log.push(format!("R  [{}] {}", if style == 0 { "eval" } else { "compile+run" }, r));
        let rejected_text = match &res {
            Err((m, l)) => {
                obs.skipped += 1;
                obs.count("skipped:panic(C08)");
                obs.see("panics_seen", &format!("{} at {}", normalise_msg(m), normalise_loc(l)));
                return;
            }
            Ok(Ok(())) => {
                obs.count("rejected_source_was_accepted");
                obs.see("accepted_failers", &format!("{}+{}", opened.join("+"), fname));
                return;
            }
            Ok(Err(e)) => show_err(e),
        };
        if phase != Some(true) {
            // the source was built and failed while running: not this oracle's subject
            obs.count("rejected_at_run_time_instead");
            return;
        }
        let _ = a.read_stdout();
        obs.count("rejected_sources");
        obs.see("rejected_by", &format!("{}:{}", fname, if trailer.is_empty() { "no-trailer" } else { "trailer" }));
        obs.see("open_structures", &opened.join("+"));
        obs.see("failure_kinds", fname);
        // ---- invariant at the hook: R changed nothing that later sources can see
        let after_book = bookkeeping(&a);
        if after_book != before_book {
            return self.fail(obs, idx, format!("state-after-rejection:bookkeeping:{}", first_word_diff(&before_book, &after_book)), &log, format!("rejected with {}\nbefore: {}\nafter:  {}", rejected_text, before_book, after_book));
        }
        let after_full = full_state(&mut a, false);
        for (x, y) in before_full.iter().zip(after_full.iter()) {
            if x.0 == "bookkeeping" || (suspended && x.0 == "ip") {
                continue; // source counter and instruction meter legitimately move
            }
            if x.1 != y.1 {
                return self.fail(obs, idx, format!("state-after-rejection:{}", x.0), &log, format!("rejected with {}\n{} before: {}\n{} after:  {}", rejected_text, x.0, truncate(&x.1, 500), y.0, truncate(&y.1, 500)));
            }
        }
        obs.count("hook_invariants_checked");
        // ---- probes (both)
        for k in 0..2 + rng.below(5) {
            let (p, kind) = probe_source(&mut rng, k);
            let style = rng.below(2);
            let ra = submit(&mut a, &p, style);
            let rb = submit(&mut b, &p, style);
            log.push(format!("P{} [{}] {}", k, if style == 0 { "eval" } else { "compile+run" }, p));
            if matches!(ra, Err(_)) || matches!(rb, Err(_)) {
                obs.count("probe_panicked(C08)");
                return;
            }
            let oa = observation(&mut a, &ra).1;
            let ob = observation(&mut b, &rb).1;
            obs.count("probes_compared");
            obs.see("probe_kinds", kind);
            if oa != ob {
                let what = if oa.lines().next() != ob.lines().next() { "result" } else if oa.contains("777") || oa.contains("LEAK") || oa.contains("780") { "leaked-output" } else { "state" };
                return self.fail(
                    obs,
                    idx,
                    format!("probe-differs:{}:{}", what, kind),
                    &log,
                    format!("after the rejected source ({}), probe {} behaves differently from the twin that never saw it\nsubject:\n{}\ntwin:\n{}", rejected_text, k, truncate(&oa, 800), truncate(&ob, 800)),
                );
            }
            // a probe that fails at build time in both must leave both clean as well; if it failed at run time the twin
            // diverges legitimately in bookkeeping only, which the next probe's observation does not include
        }
        obs.add("evaluations", 1);
        obs.shape(fnv1a(format!("{}|{}|{}|{}", opened.join("+"), fname, trailer, style).as_bytes()) ^ (idx % 16));
        if idx % 1499 < 2 {
            obs.sample(J::obj(vec![("rejected", J::s(r)), ("error", J::s(truncate(&rejected_text, 100))), ("history_and_probes", J::Arr(log.iter().take(10).map(|l| J::s(truncate(l, 160))).collect()))]));
        }
    }

    /// a source that builds but fails while running must not be re-executed by later sources
    fn runtime_case(&mut self, idx: u64, obs: &mut Obs) {
        let mut rng = Rng::for_case("C10rt", self.seed, idx);
        let mut a = self.boot.clone();
        let mut log = vec![];
        if rng.chance(1, 3) {
            a.set_recording_enabled(true);
            log.push("recording on".to_string());
            obs.count("runtime_cases_with_recording");
        }
        for k in 0..rng.below(4) {
            let src = history_source(&mut rng, k);
            let style = rng.below(2);
            if !matches!(submit(&mut a, &src, style), Ok(Ok(()))) {
                obs.skipped += 1;
                return;
            }
            log.push(format!("H{} {}", k, src));
        }
        let _ = a.read_stdout();
        let fails = *rng.pick(&["1 0 /", "nil 1 +", "false assert", "\"boom\" error", "[ 1 ] 5 nth", "1 2 assert-eq", "drop drop drop drop drop drop drop drop drop drop drop drop drop drop drop drop drop drop drop drop drop drop drop drop drop drop drop drop drop drop drop drop drop drop drop drop drop drop drop drop", ": rt-inner 1 0 rem ; rt-inner", "3 0 do I 1 == if nil neg then loop"]);
        let tail = *rng.pick(&["", " \"AFTER\" print", " 99"]);
        let r = format!("\"MARK\" print {} {}", fails, tail);
        let style = rng.below(2);
        let (phase, res) = submit_phased(&mut a, &r, style);
        log.push(format!("R  [{}] {}", if style == 0 { "eval" } else { "compile+run" }, r));
        if phase != Some(false) || !matches!(res, Ok(Err(_))) {
            obs.count("runtime_case_did_not_fail_at_run_time");
            return;
        }
        let out = a.read_stdout().unwrap_or_default();
        if out != "\"MARK\"" {
            return self.fail(obs, idx, "runtime:output-of-failed-source".into(), &log, format!("the failing source printed {:?}, expected exactly \"MARK\"", out));
        }
        obs.count("runtime_failures");
        obs.see("runtime_failure_kinds", fails.split_whitespace().last().unwrap_or(""));
        for k in 0..2 + rng.below(4) {
            let n = a.data_depth();
            let before: Vec<String> = (0..n).rev().filter_map(|i| a.get_data(i).map(show)).collect();
            let style = rng.below(2);
            let (p, want_push, want_out): (&str, &str, &str) = *rng.pick(&[("41 1 +", "42", ""), ("\"p\" print 7", "7", "\"p\""), ("3 0 do loop 8", "8", ""), ("#( 2 3 * #)", "6", "")]);
            let res = submit(&mut a, p, style);
            log.push(format!("P{} [{}] {}", k, if style == 0 { "eval" } else { "compile+run" }, p));
            let out = a.read_stdout().unwrap_or_default();
            let n2 = a.data_depth();
            let after: Vec<String> = (0..n2).rev().filter_map(|i| a.get_data(i).map(show)).collect();
            let mut want = before.clone();
            want.push(want_push.to_string());
            obs.count("runtime_probes");
            if !matches!(res, Ok(Ok(()))) {
                let what = match &res {
                    Ok(Err(e)) => show_err(e),
                    Err((m, _)) => format!("panic {}", m),
                    _ => String::new(),
                };
                return self.fail(obs, idx, format!("runtime:probe-fails:{}", if style == 0 { "eval" } else { "compile+run" }), &log, format!("probe {:?} after a source that failed at run time returned {}", p, truncate(&what, 300)));
            }
            if out != want_out {
                return self.fail(obs, idx, "runtime:failed-source-ran-again".into(), &log, format!("probe {:?} printed {:?}, expected {:?}", p, out, want_out));
            }
            if after != want {
                return self.fail(obs, idx, "runtime:probe-stack".into(), &log, format!("probe {:?}: stack [{}] expected [{}]", p, after.join(" "), want.join(" ")));
            }
        }
        obs.add("evaluations", 1);
        obs.shape(fnv1a(log.join("|").as_bytes()));
    }
}

fn first_word_diff(a: &str, b: &str) -> String {
    for (x, y) in a.split_whitespace().zip(b.split_whitespace()) {
        if x != y {
            return x.split('=').next().unwrap_or("").to_string();
        }
    }
    "?".into()
}

impl Monitor for C10 {
    fn run_case(&mut self, idx: u64, obs: &mut Obs) {
        if idx % 5 == 4 {
            self.runtime_case(idx, obs)
        } else {
            self.build_case(idx, obs)
        }
    }
    fn describe(&mut self, idx: u64) -> String {
        format!("rejected-source history #{}", idx)
    }
}
