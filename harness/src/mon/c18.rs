//! C18 — text encodings of binary data round-trip.
//! Oracle: identity for the round trip, independent encoders for the text, alphabet membership for invalid text.
use super::Monitor;
use crate::render::*;
use crate::util::*;
use crate::Args;
use xeh::bitstr::BitvecBuilder;
use xeh::prelude::*;

pub struct C18 {
    seed: u64,
    boot: Xstate,
}

impl C18 {
    pub fn new(a: &Args) -> C18 {
        C18 { seed: a.seed, boot: Xstate::boot().expect("boot") }
    }
}

const RFC32: &[u8] = b"ABCDEFGHIJKLMNOPQRSTUVWXYZ234567";
const CROCK: &[u8] = b"0123456789ABCDEFGHJKMNPQRSTVWXYZ";
const B64: &[u8] = b"ABCDEFGHIJKLMNOPQRSTUVWXYZabcdefghijklmnopqrstuvwxyz0123456789+/";
const Z85: &[u8] = b"0123456789abcdefghijklmnopqrstuvwxyzABCDEFGHIJKLMNOPQRSTUVWXYZ.-:+=^!/*?&<>()[]{}@%$#";

/// generic bit-group encoder: groups of `g` bits, MSB first, zero padded
fn group_encode(data: &[u8], g: usize, alphabet: &[u8]) -> Vec<u8> {
    let mut out = Vec::new();
    let nbits = data.len() * 8;
    let mut i = 0;
    while i < nbits {
        let mut v = 0usize;
        for k in 0..g {
            let p = i + k;
            let bit = if p < nbits { (data[p / 8] >> (7 - p % 8)) & 1 } else { 0 };
            v = (v << 1) | bit as usize;
        }
        out.push(alphabet[v]);
        i += g;
    }
    out
}

fn ref_base32(data: &[u8]) -> String {
    let mut out = group_encode(data, 5, RFC32);
    while out.len() % 8 != 0 {
        out.push(b'=');
    }
    String::from_utf8(out).unwrap()
}

fn ref_crockford(data: &[u8]) -> String {
    String::from_utf8(group_encode(data, 5, CROCK)).unwrap()
}

fn ref_base64(data: &[u8]) -> String {
    let mut out = group_encode(data, 6, B64);
    while out.len() % 4 != 0 {
        out.push(b'=');
    }
    String::from_utf8(out).unwrap()
}

/// Z85 with the z85 crate's tail scheme: a short last chunk is left-padded with zero bytes and the
/// first (4 - n) output characters are replaced by '#'
fn ref_z85(data: &[u8]) -> String {
    let mut out = Vec::new();
    let full = data.len() / 4 * 4;
    let enc = |chunk: [u8; 4]| -> [u8; 5] {
        let mut n = ((chunk[0] as u64) << 24) | ((chunk[1] as u64) << 16) | ((chunk[2] as u64) << 8) | chunk[3] as u64;
        let mut o = [0u8; 5];
        for i in (0..5).rev() {
            o[i] = Z85[(n % 85) as usize];
            n /= 85;
        }
        o
    };
    for c in data[..full].chunks(4) {
        out.extend_from_slice(&enc([c[0], c[1], c[2], c[3]]));
    }
    let tail = &data[full..];
    if !tail.is_empty() {
        let diff = 4 - tail.len();
        let mut padded = [0u8; 4];
        padded[diff..].copy_from_slice(tail);
        let mut o = enc(padded);
        for x in o.iter_mut().take(diff) {
            *x = b'#';
        }
        out.extend_from_slice(&o);
    }
    String::from_utf8(out).unwrap()
}

const NCLASS: u64 = 7;

/// bytes whose Z85 text is made mostly of the extreme digits (value 0 = '0', value 84 = '#', which is also the
/// tail marker), including across the boundary between the last full chunk and the tail chunk
fn z85_digit_boundary(rng: &mut Rng, len: usize) -> Vec<u8> {
    let mut out = Vec::with_capacity(len);
    let digit = |rng: &mut Rng| -> u64 {
        match rng.below(8) {
            0 => 0,
            1..=4 => 84,
            _ => rng.below(85) as u64,
        }
    };
    while out.len() + 4 <= len {
        let mut v: u64 = 0;
        for i in 0..5 {
            let mut d = digit(rng);
            if i == 0 && d > 81 {
                d = rng.below(82) as u64; // keep the value below 2^32
            }
            v = v * 85 + d;
        }
        out.extend_from_slice(&(v as u32).to_be_bytes());
    }
    let n = len - out.len();
    if n > 0 {
        let lim: u64 = 1 << (8 * n);
        let mut v: u64 = 0;
        for _ in 0..n + 1 {
            v = v * 85 + digit(rng);
        }
        if v >= lim {
            v = match rng.below(3) {
                0 => lim - 1,
                1 => v % lim,
                _ => 84 * 85 + 84,
            } % lim;
        }
        out.extend_from_slice(&(v as u32).to_be_bytes()[4 - n..]);
    }
    out
}

/// bytes built from 5- or 6-bit groups that are all-zero, all-one or random, so that base32/base64 text has runs of
/// the first and last alphabet characters
fn bit_group_boundary(rng: &mut Rng, len: usize) -> Vec<u8> {
    let g = if rng.flip() { 5 } else { 6 };
    let mut bits: Vec<u8> = Vec::with_capacity(len * 8 + 8);
    while bits.len() < len * 8 {
        let k = rng.below(4);
        for _ in 0..g {
            bits.push(match k {
                0 => 0,
                1 | 2 => 1,
                _ => (rng.next_u64() & 1) as u8,
            });
        }
    }
    (0..len).map(|i| bits[i * 8..i * 8 + 8].iter().fold(0u8, |a, b| (a << 1) | b)).collect()
}

struct Codec {
    enc: &'static str,
    dec: &'static str,
    reference: fn(&[u8]) -> String,
    /// characters that may legitimately appear in text for this decoder (alphabet, aliases, padding)
    valid: fn(char) -> bool,
}

fn codecs() -> [Codec; 4] {
    [
        Codec { enc: "base32", dec: "base32>", reference: ref_base32, valid: |c| c == '=' || RFC32.contains(&(c.to_ascii_uppercase() as u8)) && c.is_ascii() },
        Codec {
            enc: "base32hex",
            dec: "base32hex>",
            reference: ref_crockford,
            valid: |c| c.is_ascii() && (c == '=' || CROCK.contains(&(c.to_ascii_uppercase() as u8)) || "oOiIlL".contains(c)),
        },
        Codec { enc: "base64", dec: "base64>", reference: ref_base64, valid: |c| c.is_ascii() && (c == '=' || B64.contains(&(c as u8))) },
        Codec { enc: "zero85", dec: "zero85>", reference: ref_z85, valid: |c| c.is_ascii() && Z85.contains(&(c as u8)) },
    ]
}

fn bytes_to_bits(b: &[u8]) -> Vec<u8> {
    b.iter().flat_map(|x| (0..8).rev().map(move |i| (x >> i) & 1)).collect()
}

impl C18 {
    fn eval1(&self, input: Cell, word: &str) -> Result<Result<Cell, Xerr>, (String, String)> {
        let mut xs = self.boot.clone();
        catch(move || {
            xs.push_data(Cell::from("sentinel"))?;
            xs.push_data(input)?;
            xs.eval(word)?;
            if xs.data_depth() != 2 {
                return Err(Xerr::ErrorMsg(Xstr::from(format!("harness: depth {} after {}", xs.data_depth(), word))));
            }
            let top = xs.pop_data()?;
            let below = xs.pop_data()?;
            if below != Cell::from("sentinel") {
                return Err(Xerr::ErrorMsg(Xstr::from("harness: sentinel damaged")));
            }
            Ok(top)
        })
    }

    fn fail(&self, obs: &mut Obs, idx: u64, what: &str, class: &str, case: String, detail: String) {
        obs.violation(Violation { class: format!("{}:{}", what, class), sig: format!("C18:{}:{}", what, class), index: idx, case, detail });
    }

    /// build the input cell for `data` in one of several forms; returns (cell, form name)
    fn input_form(&self, data: &[u8], rng: &mut Rng) -> (Cell, &'static str) {
        let ascii = data.iter().all(|b| *b < 0x80 && *b != 0);
        let form = rng.below(8);
        match form {
            6 | 7 => {
                // a byte-aligned view into a longer buffer: a field cut out of binary input with `n bytes`
                let lead = rng.below(4);
                let trail = if form == 6 { 1 + rng.below(5) } else { rng.below(2) };
                let mut buf: Vec<u8> = (0..lead).map(|_| rng.next_u64() as u8).collect();
                buf.extend_from_slice(data);
                buf.extend((0..trail).map(|_| rng.next_u64() as u8));
                let whole = Xbitstr::from(buf);
                (Cell::from(whole.substr(lead * 8, (lead + data.len()) * 8).expect("harness substr")), "aligned-view-of-longer-buffer")
            }
            0 if ascii && !data.is_empty() => (Cell::from(String::from_utf8(data.to_vec()).unwrap()), "string"),
            1 => {
                let mut v = Xvec::new();
                for b in data {
                    v.push_back_mut(Cell::from(*b));
                }
                (Cell::from(v), "byte-vector")
            }
            2 => {
                // nested vectors of bytes, strings and bit-strings
                let mut v = Xvec::new();
                let mut i = 0;
                while i < data.len() {
                    let n = (1 + rng.below(5)).min(data.len() - i);
                    let part = &data[i..i + n];
                    match rng.below(3) {
                        0 => {
                            let mut inner = Xvec::new();
                            for b in part {
                                inner.push_back_mut(Cell::from(*b));
                            }
                            v.push_back_mut(Cell::from(inner));
                        }
                        1 => v.push_back_mut(Cell::from(Xbitstr::from(part.to_vec()))),
                        _ => {
                            for b in part {
                                v.push_back_mut(Cell::from(*b));
                            }
                        }
                    }
                    i += n;
                }
                (Cell::from(v), "nested-vector")
            }
            3 | 4 => {
                // bit-string sliced at a bit offset that is not a byte multiple (the copying path), in the first byte or
                // some bytes into its buffer
                let off = 1 + rng.below(7) + 8 * rng.below(4);
                let mut b = BitvecBuilder::default();
                for _ in 0..off {
                    b.append_bit(rng.flip() as u8);
                }
                for x in bytes_to_bits(data) {
                    b.append_bit(x);
                }
                for _ in 0..rng.below(9) {
                    b.append_bit(rng.flip() as u8);
                }
                let whole = b.finish();
                (Cell::from(whole.substr(off, off + data.len() * 8).expect("harness substr")), "unaligned-bitstr")
            }
            _ => (Cell::from(Xbitstr::from(data.to_vec())), "aligned-bitstr"),
        }
    }
}

impl Monitor for C18 {
    fn run_case(&mut self, idx: u64, obs: &mut Obs) {
        let mut rng = Rng::for_case("C18", self.seed, idx);
        let mut len = if small() { (idx % 29) as usize } else { (idx % 301) as usize };
        if !small() && fnv1a(&idx.to_le_bytes()) % 97 == 0 {
            // one case in ~100 is long: around the block sizes encoders like to work in
            len = *rng.pick(&[1023usize, 1024, 1025, 1026, 2047, 2048, 2049, 3072, 3073, 4095, 4097, 8193]);
            obs.count("long_inputs");
        }
        let data: Vec<u8> = match (idx / 301) % NCLASS {
            0 => rng.bytes(len),
            1 => vec![0u8; len],
            2 => vec![0xffu8; len],
            3 => (0..len).map(|i| (i as u8).wrapping_mul(7).wrapping_add(idx as u8)).collect(),
            4 => (0..len).map(|_| 0x20 + rng.below(0x5f) as u8).collect(),
            5 => z85_digit_boundary(&mut rng, len),
            _ => bit_group_boundary(&mut rng, len),
        };
        obs.see("lengths_mod_20", &format!("{}", len % 20));
        obs.maxi("max_len", len as u64);
        obs.shape(fnv1a(format!("{}-{}", len, (idx / 301) % NCLASS).as_bytes()) ^ (idx / (301 * NCLASS)));
        let cs = codecs();
        for c in cs.iter() {
            let (input, form) = self.input_form(&data, &mut rng);
            obs.count(&format!("form:{}", form));
            let case = format!("{} of {} bytes {:02x?} given as {}", c.enc, len, &data[..len.min(40)], form);
            let text = match self.eval1(input, c.enc) {
                Err((m, l)) => return self.fail(obs, idx, c.enc, "panic", case, format!("panic {} at {}", m, l)),
                Ok(Err(e)) => return self.fail(obs, idx, c.enc, "error", case, format!("encoder refused valid input: {}", show_err(&e))),
                Ok(Ok(t)) => t,
            };
            let got = match text.str() {
                Ok(s) => s.to_string(),
                Err(_) => return self.fail(obs, idx, c.enc, "type", case, format!("encoder returned {}", show(&text))),
            };
            let want = (c.reference)(&data);
            if got != want {
                return self.fail(obs, idx, c.enc, "text", case, format!("encoded {:?}, reference {:?}", got, want));
            }
            obs.count("encodings_checked");
            // decode back
            // text that carries tags is still that text
            let text_cell = if rng.chance(1, 6) {
                obs.count("decoded_text_carried_tags");
                Cell::from(got.clone()).with_tags(Xmap::new().insert(Cell::from("k"), Cell::Int(1)))
            } else {
                Cell::from(got.clone())
            };
            match self.eval1(text_cell, c.dec) {
                Err((m, l)) => return self.fail(obs, idx, c.dec, "panic", case, format!("panic {} at {}", m, l)),
                Ok(Err(e)) => return self.fail(obs, idx, c.dec, "error", case, format!("decoder raised {}", show_err(&e))),
                Ok(Ok(back)) => match back.bitstr().ok().and_then(|b| b.to_bytes()) {
                    Some(bytes) if bytes == data => obs.count("round_trips"),
                    _ => return self.fail(obs, idx, c.dec, "round-trip", case, format!("decoded {} from {:?}", show(&back), got)),
                },
            }
            // aliases: lower case for the base32 family
            if c.enc.starts_with("base32") && !got.is_empty() {
                let lower = got.to_ascii_lowercase();
                if let Ok(Ok(back)) = self.eval1(Cell::from(lower.clone()), c.dec) {
                    if let Some(b) = back.bitstr().ok().and_then(|b| b.to_bytes()) {
                        if b != data {
                            return self.fail(obs, idx, c.dec, "alias", case, format!("lower-case text {:?} decoded to other bytes", lower));
                        }
                        obs.count("alias_decodes");
                    }
                }
            }
            // invalid / arbitrary text: never an error; a character outside the alphabet => nil
            for _ in 0..3 {
                let mut t: Vec<char> = got.chars().collect();
                let kind = rng.below(7);
                let class = match kind {
                    0 => {
                        let outside = ['\u{e9}', ' ', '~', '\n', '"', '\u{4e16}', ',', '_', '\\', '\u{0}', '|', '\''];
                        let ch = outside[rng.below(outside.len())];
                        let p = rng.below(t.len() + 1);
                        t.insert(p, ch);
                        "outside-char"
                    }
                    1 => {
                        if !t.is_empty() {
                            let p = rng.below(t.len());
                            t.remove(p);
                        }
                        "dropped-char"
                    }
                    2 => {
                        t.push('=');
                        "extra-padding"
                    }
                    3 => {
                        let p = rng.below(t.len() + 1);
                        t.insert(p, '#');
                        "hash"
                    }
                    4 => {
                        t = (0..rng.below(12)).map(|_| (0x21 + rng.below(0x5e) as u8) as char).collect();
                        "random-ascii"
                    }
                    5 => {
                        t = "#".repeat(rng.below(11)).chars().collect();
                        "hashes-only"
                    }
                    _ => {
                        t.truncate(rng.below(t.len() + 1));
                        "truncated"
                    }
                };
                let text: String = t.into_iter().collect();
                let has_outside = text.chars().any(|ch| !(c.valid)(ch));
                let case2 = format!("{} of {:?} ({})", c.dec, text, class);
                obs.see("invalid_text_classes", class);
                match self.eval1(Cell::from(text.clone()), c.dec) {
                    Err((m, l)) => return self.fail(obs, idx, c.dec, "panic", case2, format!("panic {} at {}", m, l)),
                    Ok(Err(e)) => return self.fail(obs, idx, c.dec, "error", case2, format!("decoder raised {} instead of nil", show_err(&e))),
                    Ok(Ok(v)) => {
                        let is_nil = v == Cell::Nil;
                        if has_outside {
                            if !is_nil {
                                return self.fail(obs, idx, c.dec, "accepted-invalid", case2, format!("text with a character outside the alphabet decoded to {}", show(&v)));
                            }
                            obs.count("invalid_text_nil");
                        } else if !is_nil && v.bitstr().is_err() {
                            return self.fail(obs, idx, c.dec, "type", case2, format!("decoder returned {}", show(&v)));
                        } else {
                            obs.count(if is_nil { "alphabet_text_nil" } else { "alphabet_text_decoded" });
                        }
                    }
                }
            }
            // acceptance equals >bitstr: a value whose bit length is not a multiple of 8, and ill-typed inputs
            if rng.chance(1, 4) {
                let bad: (Cell, &str) = match rng.below(4) {
                    0 => {
                        let mut b = BitvecBuilder::default();
                        for _ in 0..(1 + rng.below(7)) {
                            b.append_bit(1);
                        }
                        (Cell::from(b.finish()), "non-byte-bitstr")
                    }
                    1 => (Cell::from(xeh::xeh_vec![1, 256]), "vector-with-256"),
                    2 => (Cell::Int(5), "int"),
                    _ => (Cell::from(xeh::xeh_vec![1.5]), "vector-with-real"),
                };
                let via_bitstr = self.eval1(bad.0.clone(), ">bitstr");
                let via_enc = self.eval1(bad.0.clone(), c.enc);
                let ok_b = matches!(via_bitstr, Ok(Ok(_)));
                let ok_e = matches!(via_enc, Ok(Ok(_)));
                let byte_multiple = matches!(&via_bitstr, Ok(Ok(v)) if v.bitstr().map(|b| b.len() % 8 == 0).unwrap_or(false));
                if via_enc.is_err() {
                    return self.fail(obs, idx, c.enc, "panic", format!("{} of {}", c.enc, bad.1), "panic".into());
                }
                if ok_e != (ok_b && byte_multiple) {
                    return self.fail(obs, idx, c.enc, "acceptance", format!("{} of {}", c.enc, bad.1), format!(">bitstr ok={} byte-multiple={} encoder ok={}", ok_b, byte_multiple, ok_e));
                }
                obs.count("acceptance_checks");
            }
        }
        if idx % 700 == 3 {
            obs.sample(J::obj(vec![("len", J::Int(len as i128)), ("bytes", J::s(format!("{:02x?}", &data[..len.min(16)]))), ("base64", J::s(ref_base64(&data[..len.min(16)])))]));
        }
    }
    fn boot_mut(&mut self) -> Option<&mut Xstate> {
        Some(&mut self.boot)
    }
    fn describe(&mut self, idx: u64) -> String {
        format!("encode/decode of a {}-byte string (content class {}), all four codecs", idx % 301, (idx / 301) % NCLASS)
    }
}
