//! Small self-contained utilities: PRNG, JSON writer, panic capture, hashing.
use std::cell::RefCell;
use std::collections::{BTreeMap, BTreeSet, HashSet};
use std::fmt::Write as _;

// ---------------------------------------------------------------- PRNG (xoshiro256**)
#[derive(Clone)]
pub struct Rng {
    s: [u64; 4],
}

fn splitmix(x: &mut u64) -> u64 {
    *x = x.wrapping_add(0x9E3779B97F4A7C15);
    let mut z = *x;
    z = (z ^ (z >> 30)).wrapping_mul(0xBF58476D1CE4E5B9);
    z = (z ^ (z >> 27)).wrapping_mul(0x94D049BB133111EB);
    z ^ (z >> 31)
}

impl Rng {
    pub fn new(seed: u64) -> Rng {
        let mut x = seed;
        Rng { s: [splitmix(&mut x), splitmix(&mut x), splitmix(&mut x), splitmix(&mut x)] }
    }
    /// a case RNG that is a pure function of (property, seed, index)
    pub fn for_case(prop: &str, seed: u64, index: u64) -> Rng {
        let mut h = fnv1a(prop.as_bytes());
        h ^= seed.wrapping_mul(0x9E3779B97F4A7C15);
        h = h.rotate_left(17) ^ index.wrapping_mul(0xD6E8FEB86659FD93);
        Rng::new(h)
    }
    pub fn next_u64(&mut self) -> u64 {
        let r = self.s[1].wrapping_mul(5).rotate_left(7).wrapping_mul(9);
        let t = self.s[1] << 17;
        self.s[2] ^= self.s[0];
        self.s[3] ^= self.s[1];
        self.s[1] ^= self.s[2];
        self.s[0] ^= self.s[3];
        self.s[2] ^= t;
        self.s[3] = self.s[3].rotate_left(45);
        r
    }
    pub fn next_u128(&mut self) -> u128 {
        ((self.next_u64() as u128) << 64) | self.next_u64() as u128
    }
    /// uniform in 0..n (n > 0)
    pub fn below(&mut self, n: usize) -> usize {
        if n <= 1 {
            return 0;
        }
        (self.next_u64() % n as u64) as usize
    }
    /// uniform in lo..=hi
    pub fn range(&mut self, lo: i64, hi: i64) -> i64 {
        if hi <= lo {
            return lo;
        }
        lo + (self.next_u64() % ((hi - lo) as u64 + 1)) as i64
    }
    pub fn chance(&mut self, num: u32, den: u32) -> bool {
        (self.next_u64() % den as u64) < num as u64
    }
    pub fn flip(&mut self) -> bool {
        self.next_u64() & 1 == 1
    }
    pub fn pick<'a, T>(&mut self, xs: &'a [T]) -> &'a T {
        &xs[self.below(xs.len())]
    }
    pub fn pick_str<'a>(&mut self, xs: &[&'a str]) -> &'a str {
        xs[self.below(xs.len())]
    }
    pub fn weighted(&mut self, weights: &[u32]) -> usize {
        let total: u64 = weights.iter().map(|w| *w as u64).sum();
        if total == 0 {
            return 0;
        }
        let mut r = self.next_u64() % total;
        for (i, w) in weights.iter().enumerate() {
            if r < *w as u64 {
                return i;
            }
            r -= *w as u64;
        }
        weights.len() - 1
    }
    pub fn bytes(&mut self, n: usize) -> Vec<u8> {
        (0..n).map(|_| self.next_u64() as u8).collect()
    }
}

/// under the Miri interpreter (about four orders of magnitude slower) every monitor shrinks its cases
pub fn small() -> bool {
    cfg!(miri) || std::env::var("XV_SMALL").is_ok()
}

pub fn fnv1a(b: &[u8]) -> u64 {
    let mut h: u64 = 0xcbf29ce484222325;
    for x in b {
        h ^= *x as u64;
        h = h.wrapping_mul(0x100000001b3);
    }
    h
}

// ---------------------------------------------------------------- JSON
#[derive(Clone, Debug)]
pub enum J {
    Null,
    Bool(bool),
    Num(f64),
    Int(i128),
    Str(String),
    Arr(Vec<J>),
    Obj(Vec<(String, J)>),
}

impl J {
    pub fn s<T: Into<String>>(x: T) -> J {
        J::Str(x.into())
    }
    pub fn obj(items: Vec<(&str, J)>) -> J {
        J::Obj(items.into_iter().map(|(k, v)| (k.to_string(), v)).collect())
    }
    pub fn write(&self, out: &mut String) {
        match self {
            J::Null => out.push_str("null"),
            J::Bool(b) => out.push_str(if *b { "true" } else { "false" }),
            J::Num(n) => {
                if n.is_finite() {
                    write!(out, "{}", n).unwrap()
                } else {
                    out.push_str("null")
                }
            }
            J::Int(i) => write!(out, "{}", i).unwrap(),
            J::Str(s) => json_str(s, out),
            J::Arr(a) => {
                out.push('[');
                for (i, x) in a.iter().enumerate() {
                    if i > 0 {
                        out.push(',');
                    }
                    x.write(out);
                }
                out.push(']');
            }
            J::Obj(o) => {
                out.push('{');
                for (i, (k, v)) in o.iter().enumerate() {
                    if i > 0 {
                        out.push(',');
                    }
                    json_str(k, out);
                    out.push(':');
                    v.write(out);
                }
                out.push('}');
            }
        }
    }
    pub fn to_string(&self) -> String {
        let mut s = String::new();
        self.write(&mut s);
        s
    }
}

fn json_str(s: &str, out: &mut String) {
    out.push('"');
    for c in s.chars() {
        match c {
            '"' => out.push_str("\\\""),
            '\\' => out.push_str("\\\\"),
            '\n' => out.push_str("\\n"),
            '\r' => out.push_str("\\r"),
            '\t' => out.push_str("\\t"),
            c if (c as u32) < 0x20 => write!(out, "\\u{:04x}", c as u32).unwrap(),
            c => out.push(c),
        }
    }
    out.push('"');
}

// ---------------------------------------------------------------- observations
pub struct Violation {
    /// mismatch class computed by the monitor (what differed, in which direction)
    pub class: String,
    /// exact signature used to match known findings
    pub sig: String,
    pub index: u64,
    /// the (minimised) case, human readable and replayable
    pub case: String,
    pub detail: String,
}

#[derive(Default)]
pub struct Obs {
    pub cases: u64,
    pub skipped: u64,
    pub counters: BTreeMap<String, u64>,
    pub sets: BTreeMap<String, BTreeSet<String>>,
    pub shapes: HashSet<u64>,
    pub samples: Vec<J>,
    pub violations: Vec<Violation>,
    pub max: BTreeMap<String, u64>,
}

impl Obs {
    pub fn count(&mut self, k: &str) {
        self.add(k, 1);
    }
    pub fn add(&mut self, k: &str, n: u64) {
        if let Some(c) = self.counters.get_mut(k) {
            *c += n;
        } else {
            self.counters.insert(k.to_string(), n);
        }
    }
    pub fn see(&mut self, set: &str, v: &str) {
        if let Some(s) = self.sets.get_mut(set) {
            if !s.contains(v) {
                s.insert(v.to_string());
            }
        } else {
            let mut s = BTreeSet::new();
            s.insert(v.to_string());
            self.sets.insert(set.to_string(), s);
        }
    }
    pub fn maxi(&mut self, k: &str, v: u64) {
        let e = self.max.entry(k.to_string()).or_insert(0);
        if v > *e {
            *e = v;
        }
    }
    pub fn shape(&mut self, h: u64) {
        self.shapes.insert(h);
    }
    pub fn sample(&mut self, j: J) {
        if self.samples.len() < 6 {
            self.samples.push(j);
        }
    }
    pub fn violation(&mut self, v: Violation) {
        if self.violations.len() < 200 {
            self.violations.push(v);
        } else {
            self.count("violations_dropped");
        }
    }
    pub fn to_json(&self, prop: &str) -> J {
        J::obj(vec![
            ("prop", J::s(prop)),
            ("cases", J::Int(self.cases as i128)),
            ("skipped", J::Int(self.skipped as i128)),
            (
                "counters",
                J::Obj(self.counters.iter().map(|(k, v)| (k.clone(), J::Int(*v as i128))).collect()),
            ),
            ("max", J::Obj(self.max.iter().map(|(k, v)| (k.clone(), J::Int(*v as i128))).collect())),
            (
                "sets",
                J::Obj(
                    self.sets
                        .iter()
                        .map(|(k, v)| (k.clone(), J::Arr(v.iter().map(|x| J::s(x.clone())).collect())))
                        .collect(),
                ),
            ),
            ("shapes", J::Arr(self.shapes.iter().map(|h| J::s(format!("{:x}", h))).collect())),
            ("samples", J::Arr(self.samples.clone())),
            (
                "violations",
                J::Arr(
                    self.violations
                        .iter()
                        .map(|v| {
                            J::obj(vec![
                                ("class", J::s(v.class.clone())),
                                ("sig", J::s(v.sig.clone())),
                                ("index", J::Int(v.index as i128)),
                                ("case", J::s(v.case.clone())),
                                ("detail", J::s(v.detail.clone())),
                            ])
                        })
                        .collect(),
                ),
            ),
        ])
    }
}

// ---------------------------------------------------------------- panic capture
thread_local! {
    static LAST_PANIC: RefCell<Option<(String, String)>> = RefCell::new(None);
}

pub fn install_panic_hook() {
    std::panic::set_hook(Box::new(|info| {
        let msg = if let Some(s) = info.payload().downcast_ref::<&str>() {
            s.to_string()
        } else if let Some(s) = info.payload().downcast_ref::<String>() {
            s.clone()
        } else {
            "<non-string panic>".to_string()
        };
        let loc = info
            .location()
            .map(|l| format!("{}:{}", l.file(), l.line()))
            .unwrap_or_else(|| "?".to_string());
        LAST_PANIC.with(|p| *p.borrow_mut() = Some((msg, loc)));
    }));
}

/// Run `f`; Ok(value) or Err((message, location)) if it panicked.
pub fn catch<T, F: FnOnce() -> T>(f: F) -> Result<T, (String, String)> {
    LAST_PANIC.with(|p| *p.borrow_mut() = None);
    match std::panic::catch_unwind(std::panic::AssertUnwindSafe(f)) {
        Ok(v) => Ok(v),
        Err(_) => {
            let got = LAST_PANIC.with(|p| p.borrow_mut().take());
            Err(got.unwrap_or_else(|| ("<unknown panic>".to_string(), "?".to_string())))
        }
    }
}

/// strip digits so that messages with embedded values compare equal
pub fn normalise_msg(m: &str) -> String {
    let mut out = String::new();
    let mut last_digit = false;
    for c in m.chars() {
        if c.is_ascii_digit() {
            if !last_digit {
                out.push('N');
            }
            last_digit = true;
        } else {
            last_digit = false;
            out.push(c);
        }
    }
    if out.len() > 120 {
        let mut cut = 120;
        while !out.is_char_boundary(cut) {
            cut -= 1;
        }
        out.truncate(cut);
    }
    out
}

/// location of a panic relative to the repository (so signatures survive path changes)
pub fn normalise_loc(loc: &str) -> String {
    if let Some(i) = loc.find("/repo/") {
        format!("xeh:{}", &loc[i + 6..])
    } else if let Some(i) = loc.find("/registry/src/") {
        let rest = &loc[i + 14..];
        match rest.find('/') {
            Some(j) => format!("dep:{}", &rest[j + 1..]),
            None => format!("dep:{}", rest),
        }
    } else if loc.starts_with("/rustc/") {
        let rest = &loc[7..];
        match rest.find('/') {
            Some(j) => format!("std:{}", &rest[j + 1..]),
            None => format!("std:{}", rest),
        }
    } else if loc.starts_with("src/") {
        format!("xv:{}", loc)
    } else {
        loc.to_string()
    }
}

pub fn set_mem_limit(bytes: u64) {
    unsafe {
        let lim = libc::rlimit { rlim_cur: bytes, rlim_max: bytes };
        libc::setrlimit(libc::RLIMIT_AS, &lim);
    }
}

/// write a scratch file that other worker processes read at the same time: skip when the content is already there,
/// otherwise write a private temporary file and rename it over (a plain write truncates first, and a concurrent reader
/// would see an empty or half-written file)
pub fn write_scratch(path: &str, content: &[u8]) {
    if std::fs::read(path).ok().as_deref() == Some(content) {
        return;
    }
    let tmp = format!("{}.{}.tmp", path, std::process::id());
    if std::fs::write(&tmp, content).is_ok() {
        let _ = std::fs::rename(&tmp, path);
    }
}
