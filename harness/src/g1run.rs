//! Running a G1 program on the real interpreter and comparing with the reference outcome.
use crate::g1::*;
use crate::render::*;
use crate::util::*;
use std::collections::BTreeMap;
use xeh::prelude::*;

#[derive(Debug, Clone)]
pub struct RealRun {
    pub result: Result<(), Xerr>,
    pub panic: Option<String>,
    pub stack: Vec<Cell>,
    pub out: String,
    pub err_class: Option<String>,
    /// (byte offset, text) of the token the error points at
    pub err_tok: Option<(usize, String)>,
    pub err_loc: Option<(String, usize, usize, String)>,
    pub loops_left: usize,
    pub frames_left: usize,
}

pub fn cell_to_val(c: &Cell) -> Option<Val> {
    if c.tags().is_some() {
        return None;
    }
    match c {
        Cell::Int(i) => Some(Val::Int(*i)),
        Cell::Str(s) => Some(Val::Str(s.to_string())),
        Cell::Flag(b) => Some(Val::Flag(*b)),
        Cell::Nil => Some(Val::Nil),
        _ => None,
    }
}

pub fn val_to_cell(v: &Val) -> Cell {
    match v {
        Val::Int(i) => Cell::Int(*i),
        Val::Str(s) => Cell::from(s.as_str()),
        Val::Flag(b) => Cell::Flag(*b),
        Val::Nil => Cell::Nil,
    }
}

pub fn visible_stack(xs: &Xstate) -> Vec<Cell> {
    let n = xs.data_depth();
    (0..n).rev().filter_map(|i| xs.get_data(i).cloned()).collect()
}

/// evaluate `src` with eval() on `xs` (stdout interception must be on); captures everything observable
pub fn run_real(xs: &mut Xstate, src: &str) -> RealRun {
    let r = catch(|| xs.eval(src));
    finish_real(xs, r)
}

pub fn finish_real(xs: &mut Xstate, r: Result<Result<(), Xerr>, (String, String)>) -> RealRun {
    let (result, panic) = match r {
        Ok(res) => (res, None),
        Err((m, l)) => (Err(Xerr::InternalError), Some(format!("{} at {}", m, normalise_loc(&l)))),
    };
    let out = xs.read_stdout().unwrap_or_default();
    let err_class = result.as_ref().err().map(|e| err_class(e));
    let (err_tok, err_loc) = match (&result, xs.last_err_location()) {
        (Err(_), Some(loc)) => (
            Some((loc.token.range().start, loc.token.as_str().to_string())),
            Some((loc.filename.to_string(), loc.line, loc.col, loc.whole_line.as_str().to_string())),
        ),
        _ => (None, None),
    };
    let d = xs.verif_dump();
    RealRun {
        result,
        panic,
        stack: visible_stack(xs),
        out,
        err_class,
        err_tok,
        err_loc,
        loops_left: d.loops.len(),
        frames_left: d.frames.len(),
    }
}

pub struct Mismatch {
    pub class: String,
    pub detail: String,
}

fn mm(class: &str, detail: String) -> Option<Mismatch> {
    Some(Mismatch { class: class.to_string(), detail })
}

pub fn show_vals(v: &[Val]) -> String {
    v.iter().map(|x| x.show()).collect::<Vec<_>>().join(" ")
}

/// compare a finished (non-exhausted) reference outcome with the real run
pub fn compare(reference: &Outcome, rendered: &Rendered, real: &RealRun, xs: &Xstate) -> Option<Mismatch> {
    if let Some(p) = &real.panic {
        return mm("panic", format!("interpreter panicked: {}", p));
    }
    match (&reference.fail, &real.result) {
        (None, Ok(())) => {
            let got: Option<Vec<Val>> = real.stack.iter().map(cell_to_val).collect();
            match got {
                Some(g) if g == reference.stack => {}
                _ => {
                    return mm(
                        "stack",
                        format!("stack [{}] expected [{}]", show_vec(&real.stack), show_vals(&reference.stack)),
                    )
                }
            }
            if real.out != reference.out {
                return mm("output", format!("output {:?} expected {:?}", real.out, reference.out));
            }
            if let Some(m) = compare_vars(&reference.vars, xs) {
                return Some(m);
            }
            if real.loops_left != 0 {
                return mm("loop-index-left", format!("{} loop record(s) still visible after the program ended", real.loops_left));
            }
            None
        }
        (None, Err(e)) => mm(
            "unexpected-error",
            format!("real run failed with {} at {:?}; reference succeeded with stack [{}]", show_err(e), real.err_tok, show_vals(&reference.stack)),
        ),
        (Some(f), Ok(())) => mm(
            "missing-error",
            format!("reference fails with {} at {:?}; real run succeeded with stack [{}]", f.class, rendered.toks.get(&(f.node, f.sub)), show_vec(&real.stack)),
        ),
        (Some(f), Err(e)) => {
            let class = real.err_class.clone().unwrap_or_default();
            if class != f.class {
                return mm("error-kind", format!("real error {} ({}), reference {} at {:?}", class, show_err(e), f.class, rendered.toks.get(&(f.node, f.sub))));
            }
            let want = rendered.toks.get(&(f.node, f.sub));
            match (&real.err_tok, want) {
                (Some((off, text)), Some((woff, wtext))) => {
                    if off != woff || text != wtext {
                        return mm("error-point", format!("error {} reported at token {:?}@{}, reference says {:?}@{}", class, text, off, wtext, woff));
                    }
                }
                (None, _) => return mm("error-point", format!("error {} has no location; reference says {:?}", class, want)),
                (_, None) => return mm("harness", "reference failure token not rendered".into()),
            }
            if real.out != reference.out {
                return mm("output-before-error", format!("output {:?} expected {:?}", real.out, reference.out));
            }
            if !reference.build_failure {
                if let Some(m) = compare_vars(&reference.vars, xs) {
                    return Some(m);
                }
            }
            None
        }
    }
}

pub fn compare_vars(vars: &BTreeMap<String, Val>, xs: &Xstate) -> Option<Mismatch> {
    for (name, want) in vars {
        match xs.get_var_value(name) {
            Ok(c) => {
                if cell_to_val(c).as_ref() != Some(want) {
                    return mm("variable", format!("variable {} = {} expected {}", name, show(c), want.show()));
                }
            }
            Err(e) => return mm("variable", format!("variable {} unreadable: {:?}", name, e)),
        }
    }
    None
}

/// opcode names and relative-jump distance buckets of the compiled code (evidence only)
pub fn code_stats(xs: &Xstate, obs: &mut Obs) {
    for op in xs.bytecode() {
        let s = format!("{:?}", op);
        let name = s.split(|c| c == '(' || c == ' ').next().unwrap_or("").to_string();
        obs.see("opcodes", &name);
        if let Some(i) = s.find("RelativeJump(") {
            let rest = &s[i + 13..];
            let num: String = rest.chars().take_while(|c| *c == '-' || c.is_ascii_digit()).collect();
            if let Ok(d) = num.parse::<i64>() {
                let b = match d {
                    0 => "0",
                    1 => "+1",
                    -1 => "-1",
                    2 => "+2",
                    d if d > 0 => "+n",
                    _ => "-n",
                };
                obs.count(&format!("jump_distance:{}:{}", name, b));
            }
        }
    }
}

// ------------------------------------------------------------------ shrinking

fn count_nodes(ns: &[Node]) -> usize {
    let mut n = 0;
    for x in ns {
        n += 1;
        match &x.kind {
            Kind::If(t, e) => {
                n += count_nodes(t);
                if let Some(e) = e {
                    n += count_nodes(e);
                }
            }
            Kind::Case(arms, d) => {
                for (p, b) in arms {
                    n += count_nodes(p) + count_nodes(b);
                }
                n += count_nodes(d);
            }
            Kind::BeginUntil(b) | Kind::BeginRepeat(b) | Kind::Do(b) | Kind::Def(_, _, b) => n += count_nodes(b),
            Kind::BeginWhile(c, b) => n += count_nodes(c) + count_nodes(b),
            _ => {}
        }
    }
    n
}

/// remove the k-th node (pre-order); returns true if removed
fn remove_nth(ns: &mut Vec<Node>, k: &mut usize) -> bool {
    let mut i = 0;
    while i < ns.len() {
        if *k == 0 {
            ns.remove(i);
            return true;
        }
        *k -= 1;
        let done = match &mut ns[i].kind {
            Kind::If(t, e) => remove_nth(t, k) || e.as_mut().map(|e| remove_nth(e, k)).unwrap_or(false),
            Kind::Case(arms, d) => {
                let mut r = false;
                for (p, b) in arms.iter_mut() {
                    if remove_nth(p, k) || remove_nth(b, k) {
                        r = true;
                        break;
                    }
                }
                r || remove_nth(d, k)
            }
            Kind::BeginUntil(b) | Kind::BeginRepeat(b) | Kind::Do(b) | Kind::Def(_, _, b) => remove_nth(b, k),
            Kind::BeginWhile(c, b) => remove_nth(c, k) || remove_nth(b, k),
            _ => false,
        };
        if done {
            return true;
        }
        i += 1;
    }
    false
}

/// greedy delta debugging: drop nodes while `still_fails` (same mismatch class) holds
pub fn shrink<F: FnMut(&[Node]) -> bool>(prog: &[Node], mut still_fails: F) -> Vec<Node> {
    let mut cur: Vec<Node> = prog.to_vec();
    let mut budget = 400;
    loop {
        let n = count_nodes(&cur);
        let mut progressed = false;
        let mut k = 0;
        while k < n && budget > 0 {
            let mut cand = cur.clone();
            let mut kk = k;
            if !remove_nth(&mut cand, &mut kk) {
                break;
            }
            budget -= 1;
            if still_fails(&cand) {
                cur = cand;
                progressed = true;
                break;
            }
            k += 1;
        }
        if !progressed || budget <= 0 {
            return cur;
        }
    }
}
