//! G1 generator: random well-formed programs over the control-flow grammar, valid by construction
//! (every push-expression leaves exactly one value of a known type, every statement is stack-neutral),
//! optionally with one planted failure or one structurally infinite loop.
use crate::g1::*;
use crate::util::Rng;

#[derive(Clone, Copy, PartialEq, Debug)]
pub enum Ty {
    Int,
    Flag,
    Str,
}

#[derive(Clone)]
struct DefInfo {
    id: usize,
    name: String,
    /// argument types (all Int) and optional result type
    nargs: usize,
    ret: Option<Ty>,
    /// reads I of the caller's loop: only callable inside a do loop
    needs_loop: bool,
}

#[derive(Clone, PartialEq, Debug)]
enum Open {
    Top,
    Def,
    If,
    Case,
    Do,
    Begin,
}

pub struct GenOpts {
    pub max_nodes: usize,
    pub max_depth: usize,
    /// plant exactly one failing node
    pub plant_failure: bool,
    /// plant one structurally infinite loop
    pub divergent: bool,
    pub allow_leaks: bool,
}

pub struct Planted {
    pub kind: &'static str,
}

pub struct Gen<'a> {
    rng: &'a mut Rng,
    next_id: NodeId,
    budget: isize,
    opts: GenOpts,
    defs: Vec<DefInfo>,
    /// name -> index into defs, as visible at the current textual position
    visible: Vec<(String, usize)>,
    vars: Vec<(String, Ty)>,
    counters: Vec<String>,
    next_counter: usize,
    /// locals of the function being defined (innermost first element is current function)
    fn_stack: Vec<FnCtx>,
    open: Vec<Open>,
    plant_at: isize,
    pub planted: Option<Planted>,
    diverge_at: isize,
    pub diverged: bool,
    name_seq: usize,
    stmt_seq: isize,
    pub stats: GenStats,
    /// do loops (counted from the function start) that `break` must not bind to
    no_break_do: usize,
    /// (open level, name) of locals declared inside constructs
    scoped_locals: Vec<(usize, String)>,
}

#[derive(Default, Clone)]
pub struct GenStats {
    pub empty_bodies: u32,
    pub zero_trip: u32,
    pub breaks: u32,
    pub redefinitions: u32,
    pub recursive_defs: u32,
    pub locals: u32,
    pub loop_locals: u32,
    pub var_redeclarations: u32,
    pub local_redeclarations: u32,
    pub case_no_default: u32,
}

struct FnCtx {
    locals: Vec<(String, Ty)>,
    /// static number of do loops open inside this function at the current point
    do_depth: usize,
    /// number of begin loops open inside this function (break allowed)
    loop_depth: usize,
    self_def: Option<usize>,
    rec_guard: Option<String>,
}

const STRS: &[&str] = &["a", "bc", "x y", "caf\u{e9}", "\u{4e16}", "", "loop", "9"];

impl<'a> Gen<'a> {
    pub fn new(rng: &'a mut Rng, opts: GenOpts) -> Gen<'a> {
        let budget = opts.max_nodes as isize;
        let plant_at = if opts.plant_failure { rng.below(12) as isize } else { -1 };
        let diverge_at = if opts.divergent { rng.below(8) as isize } else { -1 };
        Gen {
            rng,
            next_id: 0,
            budget,
            opts,
            defs: vec![],
            visible: vec![],
            vars: vec![],
            counters: vec![],
            next_counter: 0,
            fn_stack: vec![FnCtx { locals: vec![], do_depth: 0, loop_depth: 0, self_def: None, rec_guard: None }],
            open: vec![Open::Top],
            plant_at,
            planted: None,
            diverge_at,
            diverged: false,
            name_seq: 0,
            stmt_seq: 0,
            stats: GenStats::default(),
            no_break_do: 0,
            scoped_locals: vec![],
        }
    }

    fn node(&mut self, k: Kind) -> Node {
        let id = self.next_id;
        self.next_id += 1;
        self.budget -= 1;
        Node::new(id, k)
    }

    fn lit_int(&mut self) -> Node {
        let v = match self.rng.below(12) {
            0 => 0,
            1 => 1,
            2 => -1,
            3 => i64::MAX as i128,
            4 => i64::MIN as i128,
            5 => i128::MAX,
            6 => (i64::MAX as i128) + 1,
            _ => self.rng.range(-20, 20) as i128,
        };
        self.node(Kind::Lit(Val::Int(v)))
    }

    fn lit(&mut self, ty: Ty) -> Node {
        match ty {
            Ty::Int => self.lit_int(),
            Ty::Flag => {
                let b = self.rng.flip();
                self.node(Kind::Lit(Val::Flag(b)))
            }
            Ty::Str => {
                let s = STRS[self.rng.below(STRS.len())].to_string();
                self.node(Kind::Lit(Val::Str(s)))
            }
        }
    }

    fn prim(&mut self, w: &'static str) -> Node {
        self.node(Kind::Prim(w))
    }

    fn any_ty(&mut self) -> Ty {
        match self.rng.below(5) {
            0 => Ty::Flag,
            1 => Ty::Str,
            _ => Ty::Int,
        }
    }

    fn cur_fn(&mut self) -> &mut FnCtx {
        self.fn_stack.last_mut().unwrap()
    }

    fn in_def(&self) -> bool {
        self.fn_stack.len() > 1
    }

    fn at_top_level(&self) -> bool {
        self.open.len() == 1
    }

    fn lookup_visible(&self, name: &str) -> Option<usize> {
        self.visible.iter().rev().find(|(n, _)| n == name).map(|(_, i)| *i)
    }

    /// code that leaves exactly one value of type `ty` on top of whatever is there
    pub fn push(&mut self, ty: Ty, depth: usize) -> Vec<Node> {
        if self.budget <= 0 || depth >= self.opts.max_depth {
            return vec![self.lit(ty)];
        }
        let choice = self.rng.below(20);
        match choice {
            0..=4 => vec![self.lit(ty)],
            5 | 6 if ty == Ty::Int => {
                let mut v = self.push(Ty::Int, depth + 1);
                let op = *self.rng.pick(&["+", "-", "*", "/", "rem"]);
                if op == "/" || op == "rem" {
                    // non-zero literal divisor keeps type-safe programs failure free
                    let d = [1i128, 2, 3, -1, -7, 10][self.rng.below(6)];
                    v.push(self.node(Kind::Lit(Val::Int(d))));
                } else {
                    v.extend(self.push(Ty::Int, depth + 1));
                }
                v.push(self.prim(op));
                v
            }
            5 | 6 if ty == Ty::Flag => {
                let mut v = self.push(Ty::Int, depth + 1);
                v.extend(self.push(Ty::Int, depth + 1));
                let op = *self.rng.pick(&["<", "<=", ">", ">=", "==", "<>"]);
                v.push(self.prim(op));
                v
            }
            7 if ty == Ty::Flag => {
                match self.rng.below(3) {
                    0 => {
                        let mut v = self.push(Ty::Flag, depth + 1);
                        v.push(self.prim("not"));
                        v
                    }
                    1 => {
                        let mut v = self.push(Ty::Flag, depth + 1);
                        v.extend(self.push(Ty::Flag, depth + 1));
                        let op = *self.rng.pick(&["and", "or"]);
                        v.push(self.prim(op));
                        v
                    }
                    _ => {
                        let t = self.any_ty();
                        let mut v = self.push(t, depth + 1);
                        v.extend(self.push(t, depth + 1));
                        v.push(self.prim("equal?"));
                        v
                    }
                }
            }
            7 if ty == Ty::Int => {
                if self.rng.flip() {
                    vec![self.prim("depth")]
                } else {
                    let mut v = self.push(Ty::Int, depth + 1);
                    v.push(self.prim("neg"));
                    v
                }
            }
            8 | 9 => {
                // variable / local / loop index
                let mut cands: Vec<Node> = Vec::new();
                let vs: Vec<String> = self.vars.iter().filter(|(_, t)| *t == ty).map(|(n, _)| n.clone()).collect();
                if !vs.is_empty() {
                    let n = self.rng.pick(&vs).clone();
                    cands.push(self.node(Kind::VarGet(n)));
                }
                let ls: Vec<String> = self.fn_stack.last().unwrap().locals.iter().filter(|(_, t)| *t == ty).map(|(n, _)| n.clone()).collect();
                if !ls.is_empty() {
                    let n = self.rng.pick(&ls).clone();
                    cands.push(self.node(Kind::LocalGet(n)));
                }
                let dd = self.fn_stack.last().unwrap().do_depth;
                if ty == Ty::Int && dd > 0 {
                    let k = self.rng.below(dd.min(3)) as u8;
                    cands.push(self.node(Kind::Idx(k)));
                }
                if cands.is_empty() {
                    vec![self.lit(ty)]
                } else {
                    let i = self.rng.below(cands.len());
                    vec![cands.swap_remove(i)]
                }
            }
            10 | 11 => {
                // call a visible definition returning ty
                let in_loop = self.fn_stack.last().unwrap().do_depth > 0;
                let cands: Vec<DefInfo> = self
                    .visible
                    .iter()
                    .map(|(_, i)| self.defs[*i].clone())
                    .filter(|d| d.ret == Some(ty) && (!d.needs_loop || in_loop))
                    .filter(|d| !self.fn_stack.iter().any(|f| f.self_def == Some(d.id)))
                    .filter(|d| self.lookup_visible(&d.name) == Some(self.defs.iter().position(|x| x.id == d.id).unwrap()))
                    .collect();
                if cands.is_empty() {
                    return vec![self.lit(ty)];
                }
                let d = cands[self.rng.below(cands.len())].clone();
                let mut v = Vec::new();
                for _ in 0..d.nargs {
                    v.extend(self.push(Ty::Int, depth + 1));
                }
                v.push(self.node(Kind::Call(d.id, d.name.clone())));
                v
            }
            12 | 13 => {
                // if/else expression
                let mut v = self.push(Ty::Flag, depth + 1);
                self.open.push(Open::If);
                let mark = self.open.len();
                let mut t = self.stmts(depth + 1, 2);
                t.extend(self.push(ty, depth + 1));
                self.drop_scoped_locals(mark);
                let mut e = self.stmts(depth + 1, 2);
                e.extend(self.push(ty, depth + 1));
                self.drop_scoped_locals(mark);
                self.open.pop();
                v.push(self.node(Kind::If(t, Some(e))));
                v
            }
            14 => {
                // case expression: selector, arms pushing ty, default drops the selector and pushes ty
                let mut v = self.push(Ty::Int, depth + 1);
                self.open.push(Open::Case);
                let narms = self.rng.below(4);
                let mut arms = Vec::new();
                for _ in 0..narms {
                    let pre = vec![self.lit_small()];
                    let mark = self.open.len();
                    let mut body = self.stmts(depth + 1, 1);
                    body.extend(self.push(ty, depth + 1));
                    self.drop_scoped_locals(mark);
                    arms.push((pre, body));
                }
                let mut default = vec![self.prim("drop")];
                default.extend(self.push(ty, depth + 1));
                self.open.pop();
                v.push(self.node(Kind::Case(arms, default)));
                v
            }
            15 | 16 => {
                // stack shuffles that end with exactly one extra value of type ty
                match self.rng.below(5) {
                    0 => {
                        let mut v = self.push(ty, depth + 1);
                        v.push(self.prim("dup"));
                        v.push(self.prim("drop"));
                        v
                    }
                    1 => {
                        let t2 = self.any_ty();
                        let mut v = self.push(t2, depth + 1);
                        v.extend(self.push(ty, depth + 1));
                        v.push(self.prim("swap"));
                        v.push(self.prim("drop"));
                        v
                    }
                    2 => {
                        let t2 = self.any_ty();
                        let mut v = self.push(ty, depth + 1);
                        v.extend(self.push(t2, depth + 1));
                        v.push(self.prim("over"));
                        v.push(self.prim("drop"));
                        v.push(self.prim("drop"));
                        v
                    }
                    3 => {
                        // a b c rot -> c b a ; drop drop -> c
                        let (t1, t2) = (self.any_ty(), self.any_ty());
                        let mut v = self.push(t1, depth + 1);
                        v.extend(self.push(t2, depth + 1));
                        v.extend(self.push(ty, depth + 1));
                        v.push(self.prim("rot"));
                        v.push(self.prim("drop"));
                        v.push(self.prim("drop"));
                        v
                    }
                    _ => {
                        let mut v = self.push(ty, depth + 1);
                        v.push(self.prim("dup"));
                        v.push(self.prim("swap"));
                        v.push(self.prim("drop"));
                        v
                    }
                }
            }
            _ => vec![self.lit(ty)],
        }
    }

    fn lit_small(&mut self) -> Node {
        let v = self.rng.range(-2, 4) as i128;
        self.node(Kind::Lit(Val::Int(v)))
    }

    fn fresh_name(&mut self, prefix: &str) -> String {
        self.name_seq += 1;
        format!("{}{}", prefix, self.name_seq)
    }

    fn counter(&mut self) -> String {
        let name = format!("cnt{}", self.next_counter);
        self.next_counter += 1;
        self.counters.push(name.clone());
        name
    }

    /// statement list (stack neutral), up to `max` statements
    pub fn stmts(&mut self, depth: usize, max: usize) -> Vec<Node> {
        let n = if self.budget <= 0 { 0 } else { self.rng.below(max + 1) };
        let mut v = Vec::new();
        for _ in 0..n {
            v.extend(self.stmt(depth));
        }
        v
    }

    fn innermost(&self) -> &Open {
        self.open.last().unwrap()
    }

    fn maybe_plant(&mut self) -> Option<Vec<Node>> {
        if self.planted.is_some() || self.plant_at < 0 {
            return None;
        }
        if self.stmt_seq < self.plant_at {
            return None;
        }
        let inner = self.innermost().clone();
        let cond_open = matches!(inner, Open::If | Open::Case);
        let kind = self.rng.below(14);
        let (nodes, name): (Vec<Node>, &'static str) = match kind {
            12 | 13 if inner == Open::Top && !self.in_def() => {
                // a store to a name whose latest definition is a word (an older variable of that name is shadowed)
                let k = self.stmt_seq;
                let with_var = kind == 12;
                let text = if with_var { format!("9 var sv{} : sv{} 1 ; 7 ! sv{}", k, k, k) } else { format!(": sw{} 1 ; 7 ! sw{}", k, k) };
                (vec![self.node(Kind::Bad(text, "msg:word is readonly"))], if with_var { "store-to-word-shadowing-a-variable" } else { "store-to-word" })
            }
            0 | 1 => (vec![self.node(Kind::Bad("qq-unknown".into(), "unknown-word"))], "unknown-word"),
            2 if !cond_open => {
                let w = *self.rng.pick(&["then", "else", "endof", "endcase"]);
                (vec![self.node(Kind::Bad(w.into(), "control-flow"))], "stray-cond-closer")
            }
            3 if inner != Open::Do && !cond_open => (vec![self.node(Kind::Bad("loop".into(), "control-flow"))], "stray-loop"),
            4 if inner != Open::Begin && !cond_open => {
                let w = *self.rng.pick(&["repeat", "until"]);
                (vec![self.node(Kind::Bad(w.into(), "control-flow"))], "stray-begin-closer")
            }
            5 if inner == Open::Top => (vec![self.node(Kind::Bad(";".into(), "control-flow"))], "stray-semicolon"),
            6 => {
                let a = self.lit(Ty::Str);
                let b = self.lit_int();
                let op = *self.rng.pick(&["+", "-", "*", "<", "=="]);
                (vec![a, b, self.prim(op)], "type-error")
            }
            7 => {
                let a = self.lit_int();
                let z = self.node(Kind::Lit(Val::Int(0)));
                let op = *self.rng.pick(&["/", "rem"]);
                (vec![a, z, self.prim(op)], "div-zero")
            }
            8 => {
                // a non-flag condition
                let c = self.lit_int();
                let body = vec![];
                (vec![c, self.node(Kind::If(body, None))], "type-error-if")
            }
            9 => {
                // more drops than the stack can hold (the reference decides where it underflows)
                let n = 2 + self.rng.below(40);
                ((0..n).map(|_| self.prim("drop")).collect(), "underflow")
            }
            10 if self.fn_stack.last().unwrap().do_depth == 0 && !self.in_def() => (vec![self.node(Kind::Idx(0)), self.prim("drop")], "loop-index-outside"),
            11 => {
                let a = self.node(Kind::Lit(Val::Nil));
                (vec![a, self.prim("not")], "type-error")
            }
            _ => (vec![self.node(Kind::Bad("zz\u{e9}-unknown".into(), "unknown-word"))], "unknown-word"),
        };
        self.planted = Some(Planted { kind: name });
        Some(nodes)
    }

    fn maybe_diverge(&mut self, depth: usize) -> Option<Vec<Node>> {
        if self.diverged || self.diverge_at < 0 || self.stmt_seq < self.diverge_at {
            return None;
        }
        self.diverged = true;
        let kind = self.rng.below(3);
        self.open.push(Open::Begin);
        self.cur_fn().loop_depth += 1;
        let mut body = self.stmts_no_break(depth + 1, 2);
        self.cur_fn().loop_depth -= 1;
        self.open.pop();
        let mut n = match kind {
            0 => self.node(Kind::BeginRepeat(body)),
            1 => {
                body.push(self.node(Kind::Lit(Val::Flag(false))));
                self.node(Kind::BeginUntil(body))
            }
            _ => {
                let c = vec![self.node(Kind::Lit(Val::Flag(true)))];
                self.node(Kind::BeginWhile(c, body))
            }
        };
        n.infinite = true;
        Some(vec![n])
    }

    /// statements that contain no break binding to an enclosing loop
    fn stmts_no_break(&mut self, depth: usize, max: usize) -> Vec<Node> {
        let saved = self.cur_fn().loop_depth;
        let saved_do = self.cur_fn().do_depth;
        // hide the enclosing loops from `break` generation (do_depth stays for I/J/K)
        self.cur_fn().loop_depth = 0;
        let hidden = std::mem::replace(&mut self.no_break_do, saved_do);
        let v = self.stmts(depth, max);
        self.no_break_do = hidden;
        self.cur_fn().loop_depth = saved;
        v
    }

    pub fn stmt(&mut self, depth: usize) -> Vec<Node> {
        self.stmt_seq += 1;
        if let Some(p) = self.maybe_plant() {
            return p;
        }
        if let Some(d) = self.maybe_diverge(depth) {
            return d;
        }
        if self.budget <= 0 || depth >= self.opts.max_depth {
            let t = self.any_ty();
            let mut v = self.push(t, depth);
            let w = if self.rng.flip() { "print" } else { "drop" };
            v.push(self.prim(w));
            return v;
        }
        let choice = self.rng.below(30);
        match choice {
            0..=3 => {
                let t = self.any_ty();
                let mut v = self.push(t, depth + 1);
                let w = *self.rng.pick(&["print", "println", "drop"]);
                v.push(self.prim(w));
                v
            }
            4 | 5 => {
                // variable definition (top level only) or assignment
                if self.at_top_level() && (self.vars.len() < 6) && self.rng.flip() {
                    let t = self.any_ty();
                    // a fresh name, or a re-declaration that shadows an earlier variable (code compiled before keeps
                    // the old cell)
                    let redeclare = !self.vars.is_empty() && self.rng.chance(1, 3);
                    let name = if redeclare { self.vars[self.rng.below(self.vars.len())].0.clone() } else { self.fresh_name("v") };
                    let mut v = self.push(t, depth + 1);
                    v.push(self.node(Kind::VarDef(name.clone())));
                    if redeclare {
                        self.stats.var_redeclarations += 1;
                        self.vars.retain(|(n, _)| *n != name);
                    }
                    self.vars.push((name, t));
                    v
                } else if !self.vars.is_empty() {
                    let (name, t) = self.vars[self.rng.below(self.vars.len())].clone();
                    let mut v = self.push(t, depth + 1);
                    v.push(self.node(Kind::VarSet(name)));
                    v
                } else {
                    vec![]
                }
            }
            6 | 7 => {
                // local declaration inside a definition
                if self.in_def() && self.rng.chance(1, 4) {
                    // a declaration that never executes (untaken branch / zero-trip loop) followed by
                    // another local: slots are assigned at compile time
                    let skipped = self.fresh_name("l");
                    let t0 = self.any_ty();
                    let mut inner = self.push(t0, depth + 1);
                    inner.push(self.node(Kind::Local(skipped)));
                    self.stats.locals += 2;
                    let mut v = if self.rng.flip() {
                        let z = self.rng.range(-2, 2) as i128;
                        self.stats.zero_trip += 1;
                        vec![self.node(Kind::Lit(Val::Int(z))), self.node(Kind::Lit(Val::Int(z))), self.node(Kind::Do(inner))]
                    } else {
                        vec![self.node(Kind::Lit(Val::Flag(false))), self.node(Kind::If(inner, None))]
                    };
                    let t = self.any_ty();
                    let name = self.fresh_name("l");
                    v.extend(self.push(t, depth + 1));
                    v.push(self.node(Kind::Local(name.clone())));
                    v.push(self.node(Kind::LocalGet(name.clone())));
                    v.push(self.prim("drop"));
                    self.scoped_locals.push((self.open.len(), name.clone()));
                    self.cur_fn().locals.push((name, t));
                    v
                } else if self.in_def() {
                    let t = self.any_ty();
                    // a fresh name, or a second declaration of a visible local (it gets its own slot and shadows)
                    let redeclare = !self.cur_fn().locals.is_empty() && self.rng.chance(1, 4);
                    let name = if redeclare {
                        let nl = self.cur_fn().locals.len();
                        let k = self.rng.below(nl);
                        self.cur_fn().locals[k].0.clone()
                    } else {
                        self.fresh_name("l")
                    };
                    let mut v = self.push(t, depth + 1);
                    v.push(self.node(Kind::Local(name.clone())));
                    if redeclare {
                        self.stats.local_redeclarations += 1;
                        self.cur_fn().locals.retain(|(n, _)| *n != name);
                    }
                    self.stats.locals += 1;
                    if self.cur_fn().do_depth > 0 || self.cur_fn().loop_depth > 0 {
                        self.stats.loop_locals += 1;
                    }
                    self.scoped_locals.push((self.open.len(), name.clone()));
                    self.cur_fn().locals.push((name, t));
                    v
                } else {
                    vec![]
                }
            }
            8..=10 => {
                let mut v = self.push(Ty::Flag, depth + 1);
                self.open.push(Open::If);
                let t = self.body(depth + 1);
                let e = if self.rng.flip() { Some(self.body(depth + 1)) } else { None };
                self.open.pop();
                v.push(self.node(Kind::If(t, e)));
                v
            }
            11 | 12 => {
                // three shapes: default = drop + code; default = code + drop; no default code at all (selector is a
                // literal, so the generator knows whether an arm consumed it and puts the drop after endcase if not)
                let shape = self.rng.below(3);
                let sel = if shape == 2 { Some(self.lit_small()) } else { None };
                let sel_val = match &sel {
                    Some(Node { kind: Kind::Lit(Val::Int(v)), .. }) => Some(*v),
                    _ => None,
                };
                let mut v = match sel {
                    Some(n) => vec![n],
                    None => self.push(Ty::Int, depth + 1),
                };
                self.open.push(Open::Case);
                let narms = self.rng.below(5);
                let mut arms = Vec::new();
                let mut matched = false;
                for _ in 0..narms {
                    let lab = self.lit_small();
                    if let (Some(sv), Kind::Lit(Val::Int(lv))) = (sel_val, &lab.kind) {
                        matched |= sv == *lv;
                    }
                    let pre = vec![lab];
                    let body = self.body(depth + 1);
                    arms.push((pre, body));
                }
                let default = match shape {
                    0 => {
                        let mut d = vec![self.prim("drop")];
                        d.extend(self.body(depth + 1));
                        d
                    }
                    1 => {
                        let mut d = self.body(depth + 1);
                        d.push(self.prim("drop"));
                        d
                    }
                    _ => vec![],
                };
                self.open.pop();
                v.push(self.node(Kind::Case(arms, default)));
                if shape == 2 {
                    self.stats.case_no_default += 1;
                    if !matched {
                        v.push(self.prim("drop"));
                    }
                }
                v
            }
            13..=16 => self.do_loop(depth),
            17 | 18 => self.begin_until(depth),
            19 | 20 => self.begin_while(depth),
            21 | 22 => self.begin_repeat(depth),
            23..=25 => self.definition(depth),
            26 | 27 => {
                // call a procedure (no result) or a function whose result is dropped
                let in_loop = self.fn_stack.last().unwrap().do_depth > 0;
                let cands: Vec<DefInfo> = self
                    .visible
                    .iter()
                    .map(|(_, i)| self.defs[*i].clone())
                    .filter(|d| !d.needs_loop || in_loop)
                    .filter(|d| !self.fn_stack.iter().any(|f| f.self_def == Some(d.id)))
                    .filter(|d| self.lookup_visible(&d.name) == Some(self.defs.iter().position(|x| x.id == d.id).unwrap()))
                    .collect();
                if cands.is_empty() {
                    return vec![];
                }
                let d = cands[self.rng.below(cands.len())].clone();
                let mut v = Vec::new();
                for _ in 0..d.nargs {
                    v.extend(self.push(Ty::Int, depth + 1));
                }
                v.push(self.node(Kind::Call(d.id, d.name.clone())));
                if d.ret.is_some() {
                    let w = if self.rng.flip() { "drop" } else { "print" };
                    v.push(self.prim(w));
                }
                v
            }
            28 if self.opts.allow_leaks && self.at_top_level() => {
                // leave a value on the stack
                let t = self.any_ty();
                self.push(t, depth + 1)
            }
            _ => {
                if self.can_break() && self.rng.chance(1, 3) {
                    self.stats.breaks += 1;
                    // unconditional break: only as the last statement is useful, but anywhere is legal
                    vec![self.node(Kind::Break)]
                } else {
                    vec![]
                }
            }
        }
    }

    fn can_break(&self) -> bool {
        let f = self.fn_stack.last().unwrap();
        f.loop_depth > 0 || f.do_depth > self.no_break_do
    }

    /// body of a construct: possibly empty, locals declared inside go out of scope for later reads
    fn body(&mut self, depth: usize) -> Vec<Node> {
        let mark = self.open.len();
        let v = if self.rng.chance(1, 6) {
            self.stats.empty_bodies += 1;
            vec![]
        } else {
            self.stmts(depth, 3)
        };
        self.drop_scoped_locals(mark);
        v
    }

    /// locals declared inside a construct are not read after it (their initialisation is not guaranteed)
    fn drop_scoped_locals(&mut self, mark: usize) {
        while let Some((lvl, name)) = self.scoped_locals.last().cloned() {
            if lvl >= mark && lvl > 1 + self.fn_open_level() {
                self.scoped_locals.pop();
                let f = self.cur_fn();
                f.locals.retain(|(n, _)| *n != name);
            } else {
                break;
            }
        }
    }

    fn fn_open_level(&self) -> usize {
        // index in `open` of the innermost Def (or 0 for top level)
        self.open.iter().rposition(|o| *o == Open::Def).unwrap_or(0)
    }

    fn do_loop(&mut self, depth: usize) -> Vec<Node> {
        let start = self.rng.range(-2, 3);
        let trip = match self.rng.below(8) {
            0 => 0,
            1 => -1,
            _ => self.rng.range(1, 4),
        };
        if trip <= 0 {
            self.stats.zero_trip += 1;
        }
        let mut v = vec![
            self.node(Kind::Lit(Val::Int((start + trip) as i128))),
            self.node(Kind::Lit(Val::Int(start as i128))),
        ];
        self.open.push(Open::Do);
        self.cur_fn().do_depth += 1;
        let mut body = self.body(depth + 1);
        if self.rng.chance(1, 5) && self.budget > 0 {
            // conditional break on the index
            let k = self.rng.range(-2, 4) as i128;
            let mut c = vec![self.node(Kind::Idx(0)), self.node(Kind::Lit(Val::Int(k))), self.prim("==")];
            let br = vec![self.node(Kind::Break)];
            self.stats.breaks += 1;
            c.push(self.node(Kind::If(br, None)));
            let pos = self.rng.below(body.len() + 1);
            // insert at a statement boundary only: prepend or append
            if pos == 0 {
                c.extend(body);
                body = c;
            } else {
                body.extend(c);
            }
        }
        self.cur_fn().do_depth -= 1;
        self.open.pop();
        v.push(self.node(Kind::Do(body)));
        v
    }

    fn begin_until(&mut self, depth: usize) -> Vec<Node> {
        // `break` is not allowed inside begin..until (the compiler rejects it)
        let c = self.counter();
        let n = self.rng.range(0, 3) as i128;
        let mut v = vec![self.node(Kind::Lit(Val::Int(0))), self.node(Kind::VarSet(c.clone()))];
        self.open.push(Open::Begin);
        let mark = self.open.len();
        let mut body = self.stmts_no_break(depth + 1, 3);
        self.drop_scoped_locals(mark);
        if body.is_empty() {
            self.stats.empty_bodies += 1;
        }
        match self.rng.below(4) {
            0 => body.push(self.node(Kind::Lit(Val::Flag(true)))),
            _ => {
                body.push(self.node(Kind::VarGet(c.clone())));
                body.push(self.node(Kind::Lit(Val::Int(1))));
                body.push(self.prim("+"));
                body.push(self.prim("dup"));
                body.push(self.node(Kind::VarSet(c.clone())));
                body.push(self.node(Kind::Lit(Val::Int(n))));
                body.push(self.prim(">="));
            }
        }
        self.open.pop();
        v.push(self.node(Kind::BeginUntil(body)));
        v
    }

    fn begin_while(&mut self, depth: usize) -> Vec<Node> {
        let c = self.counter();
        let n = self.rng.range(0, 3) as i128;
        let mut v = vec![self.node(Kind::Lit(Val::Int(0))), self.node(Kind::VarSet(c.clone()))];
        self.open.push(Open::Begin);
        // condition part: counter < n (no break allowed before `while`)
        let mut cond = vec![self.node(Kind::VarGet(c.clone())), self.node(Kind::Lit(Val::Int(n))), self.prim("<")];
        if self.rng.chance(1, 4) {
            let mut pre = self.stmts_no_break(depth + 1, 1);
            pre.extend(cond);
            cond = pre;
        }
        self.cur_fn().loop_depth += 1;
        let mark = self.open.len();
        let mut body = self.stmts(depth + 1, 3);
        self.drop_scoped_locals(mark);
        self.cur_fn().loop_depth -= 1;
        // increment at the start so that a break later in the body cannot skip it... a break exits anyway
        let mut inc = vec![
            self.node(Kind::VarGet(c.clone())),
            self.node(Kind::Lit(Val::Int(1))),
            self.prim("+"),
            self.node(Kind::VarSet(c.clone())),
        ];
        inc.extend(body);
        body = inc;
        self.open.pop();
        v.push(self.node(Kind::BeginWhile(cond, body)));
        v
    }

    fn begin_repeat(&mut self, depth: usize) -> Vec<Node> {
        let c = self.counter();
        let n = self.rng.range(0, 3) as i128;
        let mut v = vec![self.node(Kind::Lit(Val::Int(0))), self.node(Kind::VarSet(c.clone()))];
        self.open.push(Open::Begin);
        self.cur_fn().loop_depth += 1;
        let mark = self.open.len();
        // guaranteed exit first: counter >= n if break then ; counter++
        let mut body = vec![
            self.node(Kind::VarGet(c.clone())),
            self.node(Kind::Lit(Val::Int(n))),
            self.prim(">="),
        ];
        let br = vec![self.node(Kind::Break)];
        self.stats.breaks += 1;
        body.push(self.node(Kind::If(br, None)));
        body.push(self.node(Kind::VarGet(c.clone())));
        body.push(self.node(Kind::Lit(Val::Int(1))));
        body.push(self.prim("+"));
        body.push(self.node(Kind::VarSet(c.clone())));
        if self.rng.chance(1, 8) {
            // `begin break repeat`
            body = vec![self.node(Kind::Break)];
        } else {
            body.extend(self.stmts(depth + 1, 3));
        }
        self.drop_scoped_locals(mark);
        self.cur_fn().loop_depth -= 1;
        self.open.pop();
        v.push(self.node(Kind::BeginRepeat(body)));
        v
    }

    fn definition(&mut self, depth: usize) -> Vec<Node> {
        if self.fn_stack.len() > 3 || self.defs.len() >= 8 {
            return vec![];
        }
        // name: fresh, or a redefinition of a visible word
        let redefine = !self.visible.is_empty() && self.rng.chance(1, 5);
        let name = if redefine {
            self.stats.redefinitions += 1;
            self.visible[self.rng.below(self.visible.len())].0.clone()
        } else {
            self.fresh_name("w")
        };
        let nargs = self.rng.below(3);
        let ret = match self.rng.below(4) {
            0 => None,
            1 => Some(Ty::Flag),
            _ => Some(Ty::Int),
        };
        let id = self.defs.len();
        // a redefinition keeps the signature shape of nothing: callers bind by id at generation time
        let recursive = nargs >= 1 && ret.is_some() && self.rng.chance(1, 3);
        let needs_loop = !recursive && self.fn_stack.last().unwrap().do_depth > 0 && self.rng.chance(1, 6);
        let info = DefInfo { id, name: name.clone(), nargs, ret, needs_loop };
        self.defs.push(info.clone());
        // visible from its own body on (recursion)
        self.visible.push((name.clone(), id));
        self.open.push(Open::Def);
        self.fn_stack.push(FnCtx {
            locals: vec![],
            do_depth: if needs_loop { 1 } else { 0 },
            loop_depth: 0,
            self_def: Some(id),
            rec_guard: None,
        });
        let saved_nb = std::mem::replace(&mut self.no_break_do, if needs_loop { 1 } else { 0 });
        let mut body = Vec::new();
        // arguments become locals (last argument on top)
        let mut arg_names = Vec::new();
        for _ in 0..nargs {
            let n = self.fresh_name("a");
            arg_names.push(n);
        }
        for n in arg_names.iter().rev() {
            body.push(self.node(Kind::Local(n.clone())));
            self.stats.locals += 1;
        }
        for n in &arg_names {
            self.cur_fn().locals.push((n.clone(), Ty::Int));
        }
        if recursive {
            self.stats.recursive_defs += 1;
            // first argument is the recursion counter: a0 0 > if (a0 - 1, other args...) self drop/then
            let a0 = arg_names[0].clone();
            let mut c = vec![self.node(Kind::LocalGet(a0.clone())), self.node(Kind::Lit(Val::Int(0))), self.prim(">")];
            // keep recursion shallow: the caller passes small values, and we clamp with `rem`
            let mut t = vec![
                self.node(Kind::LocalGet(a0.clone())),
                self.node(Kind::Lit(Val::Int(1))),
                self.prim("-"),
                self.node(Kind::Lit(Val::Int(6))),
                self.prim("rem"),
            ];
            for _ in 1..nargs {
                t.extend(self.push(Ty::Int, depth + 2));
            }
            t.push(self.node(Kind::Call(id, name.clone())));
            let w = if self.rng.flip() { "drop" } else { "print" };
            t.push(self.prim(w));
            c.push(self.node(Kind::If(t, None)));
            body.extend(c);
        }
        body.extend(self.stmts(depth + 1, 4));
        if let Some(t) = ret {
            body.extend(self.push(t, depth + 1));
        }
        self.no_break_do = saved_nb;
        self.fn_stack.pop();
        self.open.pop();
        vec![self.node(Kind::Def(id, name, body))]
    }

    /// a whole program: counter declarations are prepended
    pub fn program(&mut self) -> Vec<Node> {
        let mut body = Vec::new();
        let n = 2 + self.rng.below(7);
        for _ in 0..n {
            body.extend(self.stmt(0));
            if self.budget <= 0 {
                break;
            }
        }
        // force pending plants so that every requested failure / divergence exists
        if self.opts.plant_failure && self.planted.is_none() {
            self.plant_at = 0;
            if let Some(p) = self.maybe_plant() {
                body.extend(p);
            }
        }
        if self.opts.divergent && !self.diverged {
            self.diverge_at = 0;
            if let Some(d) = self.maybe_diverge(0) {
                body.extend(d);
            }
        }
        let mut prog = Vec::new();
        for c in self.counters.clone() {
            prog.push(self.node(Kind::Lit(Val::Int(0))));
            prog.push(self.node(Kind::VarDef(c)));
        }
        prog.extend(body);
        prog
    }
}
