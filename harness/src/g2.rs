//! G2 — typed word soup over the whole dictionary. No reference semantics: programs are mostly valid
//! (an abstract typed stack steers word choice) and use the full instruction repertoire; they feed the
//! self-consistency monitors (reverse stepping, clone isolation, drive-mode equivalence, tags).
use crate::util::Rng;

#[derive(Clone, Copy, PartialEq, Debug)]
pub enum T {
    I,
    R,
    S,
    F,
    N,
    V,
    M,
    B,
    X,
}

pub struct G2 {
    pub src: String,
    st: Vec<T>,
    vars: Vec<(String, T)>,
    words: Vec<(String, usize, Option<T>)>,
    consts: Vec<String>,
    seq: usize,
    budget: isize,
    do_depth: usize,
    in_def: bool,
    locals: Vec<(String, T)>,
    pub uses_input: bool,
    pub features: Vec<&'static str>,
    /// when false, words that mutate the parsing cursor / output are avoided
    pub allow_cursor: bool,
    pub allow_failing: bool,
}

const INT_WORDS2: &[&str] = &["+", "-", "*", "min", "max", "band", "bor", "bxor"];
const CMP_WORDS: &[&str] = &["<", "<=", ">", ">=", "==", "<>"];
const INT_WORDS1: &[&str] = &["neg", "abs", "bnot", "popcnt", ">b"];
const READ_WORDS: &[&str] = &["u8", "i8", "u16", "i16le", "u16be", "u32", "i32be", "u64le", "i64", "u8be", "i16", "u32le"];

impl G2 {
    pub fn new(budget: usize) -> G2 {
        G2 {
            src: String::new(),
            st: vec![],
            vars: vec![],
            words: vec![],
            consts: vec![],
            seq: 0,
            budget: budget as isize,
            do_depth: 0,
            in_def: false,
            locals: vec![],
            uses_input: false,
            features: vec![],
            allow_cursor: true,
            allow_failing: true,
        }
    }

    fn w<S: AsRef<str>>(&mut self, s: S) {
        self.src.push_str(s.as_ref());
        self.src.push(' ');
        self.budget -= 1;
    }

    fn feat(&mut self, f: &'static str) {
        if !self.features.contains(&f) {
            self.features.push(f);
        }
    }

    fn name(&mut self, p: &str) -> String {
        self.seq += 1;
        format!("{}{}", p, self.seq)
    }

    fn int_lit(&mut self, rng: &mut Rng) {
        let v: i128 = match rng.below(10) {
            0 => 0,
            1 => -1,
            2 => i64::MAX as i128 + rng.below(3) as i128,
            3 => rng.range(0, 255) as i128,
            _ => rng.range(-50, 50) as i128,
        };
        let s = if rng.chance(1, 8) && v >= 0 { format!("0x{:x}", v) } else { format!("{}", v) };
        self.w(&s);
        self.st.push(T::I);
    }

    fn small_int(&mut self, rng: &mut Rng, lo: i64, hi: i64) {
        let v = rng.range(lo, hi);
        self.w(&format!("{}", v));
        self.st.push(T::I);
    }

    fn bits_lit(&mut self, rng: &mut Rng) {
        let mut s = String::from("|");
        let n = rng.below(6);
        for i in 0..n {
            if i > 0 && rng.flip() {
                s.push(' ');
            }
            s.push_str(&format!("{:02X}", rng.below(256)));
        }
        if rng.chance(1, 3) {
            for _ in 0..rng.below(7) {
                s.push(if rng.flip() { 'x' } else { '.' });
            }
        }
        s.push('|');
        self.w(&s);
        self.st.push(T::B);
    }

    fn str_lit(&mut self, rng: &mut Rng) {
        let c = ["a", "key", "caf\u{e9}", "", "x y", "12", "\u{4e16}\u{754c}", "q\\n", "Zz"];
        self.w(&format!("\"{}\"", c[rng.below(c.len())]));
        self.st.push(T::S);
    }

    /// push a value of (roughly) type t
    pub fn push(&mut self, rng: &mut Rng, t: T, depth: usize) {
        let t = if t == T::X { *rng.pick(&[T::I, T::I, T::S, T::F, T::N, T::V, T::M, T::B, T::R]) } else { t };
        // reuse variables / locals / constants of that type sometimes
        if rng.chance(1, 5) {
            let cands: Vec<String> = self.vars.iter().chain(self.locals.iter()).filter(|(_, vt)| *vt == t).map(|(n, _)| n.clone()).collect();
            if !cands.is_empty() {
                let n = rng.pick(&cands).clone();
                self.w(&n);
                self.st.push(t);
                return;
            }
        }
        match t {
            T::I => {
                if self.do_depth > 0 && rng.chance(1, 4) {
                    self.w(["I", "J", "K"][rng.below(self.do_depth.min(3))]);
                    self.st.push(T::I);
                } else if !self.consts.is_empty() && rng.chance(1, 6) {
                    let c = rng.pick(&self.consts).clone();
                    self.w(&c);
                    self.st.push(T::I);
                } else if depth < 3 && rng.chance(1, 3) {
                    self.push(rng, T::I, depth + 1);
                    self.push(rng, T::I, depth + 1);
                    self.w(rng.pick(INT_WORDS2));
                    self.st.pop();
                } else if depth < 3 && rng.chance(1, 8) {
                    // meta-evaluated constant expression
                    self.feat("meta");
                    self.w("#(");
                    self.small_int(rng, -9, 9);
                    self.small_int(rng, 1, 9);
                    self.w(rng.pick(&["+", "*", "-", "/", "rem"]));
                    self.st.pop();
                    self.st.pop();
                    self.w("#)");
                    self.st.push(T::I);
                } else {
                    self.int_lit(rng);
                }
            }
            T::R => {
                let v = rng.range(-4000, 4000) as f64 / 8.0;
                self.w(&format!("{:?}", v));
                self.st.push(T::R);
            }
            T::S => {
                if depth < 3 && rng.chance(1, 5) {
                    self.push(rng, T::V, depth + 1);
                    self.w("concat");
                    self.st.pop();
                    self.st.push(T::S);
                } else {
                    self.str_lit(rng);
                }
            }
            T::F => {
                if depth < 3 && rng.chance(1, 2) {
                    self.push(rng, T::I, depth + 1);
                    self.push(rng, T::I, depth + 1);
                    self.w(rng.pick(CMP_WORDS));
                    self.st.pop();
                    self.st.pop();
                    self.st.push(T::F);
                } else {
                    self.w(if rng.flip() { "true" } else { "false" });
                    self.st.push(T::F);
                }
            }
            T::N => {
                self.w("nil");
                self.st.push(T::N);
            }
            T::V => {
                self.feat("vec-builder");
                self.w("[");
                let base = self.st.len();
                let n = if depth >= 3 { rng.below(3) } else { rng.below(5) };
                let et = *rng.pick(&[T::I, T::I, T::I, T::S, T::X]);
                for _ in 0..n {
                    self.push(rng, et, depth + 1);
                }
                self.st.truncate(base);
                self.w("]");
                self.st.push(T::V);
            }
            T::M => {
                self.feat("map-builder");
                self.w("{");
                let base = self.st.len();
                let n = if depth >= 3 { rng.below(2) } else { rng.below(4) };
                let kt = *rng.pick(&[T::S, T::I]);
                for _ in 0..n {
                    self.push(rng, T::X, depth + 2);
                    self.push(rng, kt, depth + 2);
                }
                self.st.truncate(base);
                self.w("}");
                self.st.push(T::M);
            }
            T::B => {
                if depth < 3 && rng.chance(1, 4) {
                    self.push(rng, T::I, depth + 1);
                    let w = *rng.pick(&["u8!", "i16le!", "u32be!", "i64!", "u16!"]);
                    self.w(w);
                    self.st.pop();
                    self.st.push(T::B);
                    self.feat("pack");
                } else if depth < 3 && rng.chance(1, 5) {
                    self.push(rng, T::I, depth + 1);
                    self.small_int(rng, 1, 70);
                    self.w(if rng.flip() { "int!" } else { "uint!" });
                    self.st.pop();
                    self.st.pop();
                    self.st.push(T::B);
                    self.feat("pack");
                } else {
                    self.bits_lit(rng);
                }
            }
            T::X => unreachable!(),
        }
        // sometimes attach tags / formatting to the value just pushed
        if depth < 2 && rng.chance(1, 12) {
            self.feat("tags");
            match rng.below(4) {
                0 => {
                    self.w("^{");
                    let base = self.st.len();
                    self.push(rng, T::I, depth + 3);
                    self.str_lit(rng);
                    self.st.truncate(base);
                    self.w("^}");
                }
                1 => self.w(rng.pick(&["^hex", "^bin", "^oct", "^dec"])),
                2 => {
                    self.str_lit(rng);
                    self.str_lit(rng);
                    self.w("insert-tag");
                    self.st.pop();
                    self.st.pop();
                }
                _ => {
                    self.w("true fmt/tags");
                }
            }
        }
    }

    fn top(&self) -> Option<T> {
        self.st.last().copied()
    }

    fn ensure(&mut self, rng: &mut Rng, ts: &[T]) {
        // make the top of the stack match ts (bottom..top) by pushing fresh values
        let n = ts.len();
        let ok = self.st.len() >= n && self.st[self.st.len() - n..].iter().zip(ts).all(|(a, b)| *b == T::X || a == b);
        if !ok {
            for t in ts {
                self.push(rng, *t, 1);
            }
        }
    }

    fn apply(&mut self, rng: &mut Rng, word: &str, ins: &[T], outs: &[T]) {
        self.ensure(rng, ins);
        for _ in ins {
            self.st.pop();
        }
        self.w(word);
        for o in outs {
            self.st.push(*o);
        }
    }

    fn consume_top(&mut self, rng: &mut Rng) {
        if self.st.is_empty() {
            return;
        }
        match rng.below(4) {
            0 => self.w("print"),
            1 => self.w("println"),
            _ => self.w("drop"),
        }
        self.st.pop();
    }

    pub fn stmt(&mut self, rng: &mut Rng, depth: usize) {
        if self.budget <= 0 {
            return;
        }
        let k = rng.below(64);
        match k {
            0..=3 => {
                let t = *rng.pick(&[T::I, T::S, T::V, T::M, T::B, T::F, T::R, T::X]);
                self.push(rng, t, 0);
            }
            4 | 5 => self.consume_top(rng),
            6 => self.apply(rng, "dup", &[T::X], &[]),
            7 => {
                if self.st.len() >= 2 {
                    let n = self.st.len();
                    self.st.swap(n - 1, n - 2);
                    self.w("swap");
                }
            }
            8 => {
                if self.st.len() >= 2 {
                    let t = self.st[self.st.len() - 2];
                    self.w("over");
                    self.st.push(t);
                }
            }
            9 => {
                if self.st.len() >= 3 {
                    let n = self.st.len();
                    self.st.swap(n - 1, n - 3);
                    self.w("rot");
                }
            }
            10 => {
                self.w("depth");
                self.st.push(T::I);
            }
            11 | 12 => {
                let w = *rng.pick(INT_WORDS2);
                self.apply(rng, w, &[T::I, T::I], &[T::I]);
            }
            13 => {
                let w = *rng.pick(INT_WORDS1);
                self.apply(rng, w, &[T::I], &[T::I]);
            }
            14 => {
                self.ensure(rng, &[T::I]);
                self.small_int(rng, 1, 9);
                self.w(rng.pick(&["/", "rem", "bsl", "bsr"]));
                self.st.pop();
            }
            15 => {
                let w = *rng.pick(CMP_WORDS);
                self.apply(rng, w, &[T::I, T::I], &[T::F]);
            }
            16 => {
                let w = *rng.pick(&["and", "or", "xor"]);
                self.apply(rng, w, &[T::F, T::F], &[T::F]);
            }
            17 => {
                let w = *rng.pick(&["zero?", "positive?", "negative?", "int?", "nil?", "str?", "vec?", "bitstr?", "real?", "bool?"]);
                self.apply(rng, w, &[T::I], &[T::F]);
            }
            18 => {
                self.apply(rng, ">real", &[T::I], &[T::R]);
                if rng.flip() {
                    self.apply(rng, "round", &[T::R], &[T::R]);
                    self.apply(rng, ">int", &[T::R], &[T::I]);
                }
            }
            19 => {
                let t = *rng.pick(&[T::V, T::S, T::B]);
                self.apply(rng, "length", &[t], &[T::I])
            }
            20 => {
                self.ensure(rng, &[T::V]);
                self.small_int(rng, -2, 3);
                self.w(if rng.flip() { "nth" } else { "get" });
                self.st.pop();
                self.st.pop();
                self.st.push(T::X);
            }
            21 => {
                self.ensure(rng, &[T::M]);
                self.str_lit(rng);
                self.w("get");
                self.st.pop();
                self.st.pop();
                self.st.push(T::X);
            }
            22 => {
                // map value key insert
                self.ensure(rng, &[T::M]);
                self.push(rng, T::X, 2);
                self.str_lit(rng);
                self.w("insert");
                self.st.pop();
                self.st.pop();
                self.feat("map-insert");
            }
            23 => {
                self.ensure(rng, &[T::M]);
                self.str_lit(rng);
                self.w("remove");
                self.st.pop();
            }
            24 => {
                // value vec push
                self.push(rng, T::X, 2);
                self.push(rng, T::V, 2);
                self.w("push");
                self.st.pop();
                self.st.pop();
                self.st.push(T::V);
            }
            25 => {
                let w = *rng.pick(&["reverse", "sort"]);
                if w == "sort" {
                    self.w("[ 3 1 2 ]");
                    self.st.push(T::V);
                }
                self.apply(rng, w, &[T::V], &[T::V]);
            }
            26 => {
                let n = rng.below(4);
                for _ in 0..n {
                    self.push(rng, T::I, 2);
                }
                self.w(&format!("{} collect", n));
                for _ in 0..n {
                    self.st.pop();
                }
                self.st.push(T::V);
                self.feat("collect");
            }
            27 => {
                self.ensure(rng, &[T::V]);
                self.w("unbox depth collect");
                self.st.clear();
                self.st.push(T::V);
                self.feat("unbox");
            }
            28 => {
                let t = *rng.pick(&[T::V, T::S]);
                self.ensure(rng, &[t]);
                self.small_int(rng, -3, 3);
                self.small_int(rng, -3, 6);
                self.w("slice");
                self.st.pop();
                self.st.pop();
            }
            29 => {
                self.ensure(rng, &[T::V]);
                if rng.flip() {
                    self.w("concat");
                } else {
                    self.w("\",\" join");
                }
                self.st.pop();
                self.st.push(T::S);
            }
            30 => self.apply(rng, "equal?", &[T::X, T::X], &[T::F]),
            31 => {
                self.feat("tags");
                match rng.below(4) {
                    0 => self.apply(rng, "tags", &[T::X], &[T::X]),
                    1 => {
                        self.ensure(rng, &[T::X]);
                        self.push(rng, T::M, 2);
                        self.w("with-tags");
                        self.st.pop();
                    }
                    2 => {
                        self.ensure(rng, &[T::X]);
                        self.str_lit(rng);
                        self.w("get-tag");
                        self.st.pop();
                        self.st.pop();
                        self.st.push(T::X);
                    }
                    _ => {
                        self.ensure(rng, &[T::X]);
                        self.str_lit(rng);
                        self.w("remove-tag");
                        self.st.pop();
                    }
                }
            }
            32 => {
                self.feat("bitstr-ops");
                match rng.below(6) {
                    5 if self.allow_cursor => {
                        // a prefix of a freshly computed (uniquely owned) value whose parent is gone, then extended or
                        // inverted: the in-place paths of the bit-string library
                        let v = rng.next_u64() & 0xffff_ffff;
                        let w = *rng.pick(&[16u32, 24, 32, 13, 21]);
                        let n = 1 + rng.below(w as usize - 1);
                        self.w(&format!("{} {} uint! open-bitstr {} bits close-bitstr", v & ((1u64 << w) - 1), w, n));
                        self.st.push(T::B);
                        self.feat("prefix-of-dropped-parent");
                        match rng.below(3) {
                            0 => {
                                // (the value on top is the head of the result)
                                self.bits_lit(rng);
                                self.w(if rng.chance(3, 4) { "swap bitstr-append" } else { "bitstr-append" });
                                self.st.pop();
                            }
                            1 => self.w("bitstr-not"),
                            _ => self.w("dup bitstr-append"),
                        }
                    }
                    0 => self.apply(rng, "bitstr-append", &[T::B, T::B], &[T::B]),
                    1 => self.apply(rng, "bitstr-not", &[T::B], &[T::B]),
                    2 => {
                        let w = *rng.pick(&["bitstr-and", "bitstr-or", "bitstr-xor"]);
                        self.apply(rng, w, &[T::B, T::B], &[T::B])
                    }
                    3 => self.apply(rng, "bitstr>hex", &[T::B], &[T::S]),
                    _ => self.apply(rng, "bitstr-len", &[T::B], &[T::I]),
                }
            }
            33 => {
                self.feat("bitstr-ops");
                let t = *rng.pick(&[T::V, T::S, T::B]);
                if t == T::V {
                    self.w("[ 1 \"ab\" [ 255 |0F| ] ]");
                    self.st.push(T::V);
                }
                self.apply(rng, ">bitstr", &[t], &[T::B]);
            }
            34 => {
                self.feat("encoders");
                let (e, d) = *rng.pick(&[("base32", "base32>"), ("base32hex", "base32hex>"), ("base64", "base64>"), ("zero85", "zero85>")]);
                self.w("|01 02 FF 80 7F|");
                self.st.push(T::B);
                self.w(e);
                if rng.flip() {
                    self.w(d);
                } else {
                    self.st.pop();
                    self.st.push(T::S);
                }
            }
            35..=38 if self.allow_cursor => {
                // binary parsing against the current input
                self.uses_input = true;
                self.feat("parse");
                match rng.below(10) {
                    0..=3 => {
                        let w = *rng.pick(READ_WORDS);
                        self.w(w);
                        self.st.push(T::I);
                    }
                    4 => {
                        self.small_int(rng, 0, 20);
                        self.w(if rng.flip() { "bits" } else { "uint" });
                        self.st.pop();
                        self.st.push(T::X);
                    }
                    5 => {
                        self.w("remain");
                        self.st.push(T::I);
                    }
                    6 => {
                        self.w("offset");
                        self.st.push(T::I);
                    }
                    7 => {
                        self.w(if rng.flip() { "big" } else { "little" });
                    }
                    8 => {
                        self.bits_lit(rng);
                        self.w("open-bitstr");
                        self.st.pop();
                        self.w(rng.pick(READ_WORDS));
                        self.w("drop close-bitstr");
                        self.feat("open-close");
                    }
                    _ => {
                        self.small_int(rng, 0, 64);
                        self.w("seek");
                        self.st.pop();
                    }
                }
            }
            39 if self.allow_cursor => {
                self.feat("emit");
                self.bits_lit(rng);
                self.w("emit");
                self.st.pop();
                if rng.flip() {
                    self.w("output-length");
                    self.st.push(T::I);
                }
            }
            40..=42 if depth < 3 => {
                // if / else
                self.feat("if");
                self.push(rng, T::F, 1);
                self.st.pop();
                self.w("if");
                let saved = self.st.clone();
                for _ in 0..rng.below(3) {
                    self.stmt(rng, depth + 1);
                }
                self.rebalance(rng, &saved);
                if rng.flip() {
                    self.w("else");
                    for _ in 0..rng.below(3) {
                        self.stmt(rng, depth + 1);
                    }
                    self.rebalance(rng, &saved);
                }
                self.w("then");
            }
            43 | 44 if depth < 3 => {
                self.feat("do-loop");
                let start = rng.range(-1, 2);
                let trip = rng.range(0, 3);
                self.w(&format!("{} {} do", start + trip, start));
                self.do_depth += 1;
                let saved = self.st.clone();
                for _ in 0..rng.below(3) {
                    self.stmt(rng, depth + 1);
                }
                if rng.chance(1, 5) {
                    self.w("I 1 == if break then");
                    self.feat("break");
                }
                self.rebalance(rng, &saved);
                self.do_depth -= 1;
                self.w("loop");
            }
            45 | 46 if depth < 3 => {
                // foreach over a vector or a map
                self.feat("foreach");
                let map = rng.chance(1, 3);
                if map {
                    self.w("{ 1 \"a\" 2 \"b\" }");
                } else {
                    self.push(rng, T::V, 2);
                    self.st.pop();
                }
                self.w("foreach I");
                let saved = self.st.clone();
                self.do_depth += 1;
                if map {
                    self.w("drop");
                }
                if rng.chance(1, 4) {
                    // leave the loop early from inside a foreach (the loop record holds the iterated collection)
                    self.w(rng.pick(&["dup 2 equal? if drop break then", "dup \"b\" equal? if drop break then", "dup nil? if else drop break then"]));
                    self.feat("foreach-break");
                }
                self.st.push(T::X);
                for _ in 0..rng.below(2) {
                    self.stmt(rng, depth + 1);
                }
                self.rebalance(rng, &saved);
                self.do_depth -= 1;
                self.w("loop");
            }
            47 if depth < 3 => {
                self.feat("case");
                self.small_int(rng, 0, 3);
                self.st.pop();
                if rng.chance(1, 3) {
                    // a selector that carries tags (every number read from binary input does)
                    self.w(rng.pick(&["^hex", "^{ 1 \"k\" ^}", "7 \"len\" insert-tag"]));
                    self.feat("case-tagged-selector");
                }
                self.w("case");
                let saved = self.st.clone();
                for i in 0..rng.below(3) {
                    self.w(&format!("{} of", i));
                    for _ in 0..rng.below(2) {
                        self.stmt(rng, depth + 1);
                    }
                    self.rebalance(rng, &saved);
                    self.w("endof");
                }
                self.w("drop endcase");
            }
            48 if depth < 3 => {
                // bounded begin loops driven by a counter on the stack
                self.feat("begin-loop");
                let n = rng.range(1, 3);
                match rng.below(3) {
                    0 => {
                        self.w(&format!("{} begin 1 - dup 0 <= until drop", n));
                    }
                    1 => {
                        self.w(&format!("{} begin dup 0 > while 1 -", n));
                        let saved = self.st.clone();
                        self.st.push(T::I);
                        let with_counter = self.st.clone();
                        for _ in 0..rng.below(2) {
                            self.stmt(rng, depth + 1);
                        }
                        self.rebalance(rng, &with_counter);
                        self.st = saved;
                        self.w("repeat drop");
                    }
                    _ => {
                        self.w(&format!("{} begin 1 - dup 0 <= if break then repeat drop", n));
                        self.feat("break");
                    }
                }
            }
            49 | 50 if depth == 0 && !self.in_def => {
                // word definition with locals, then a call
                self.feat("definition");
                let name = self.name("w");
                let nargs = rng.below(3);
                let ret = *rng.pick(&[None, Some(T::I), Some(T::V), Some(T::S)]);
                self.w(&format!(": {}", name));
                let saved_st = std::mem::take(&mut self.st);
                let saved_do = std::mem::replace(&mut self.do_depth, 0);
                self.in_def = true;
                self.locals.clear();
                for i in 0..nargs {
                    let l = format!("{}a{}", name, i);
                    self.w(&format!("local {}", l));
                    self.locals.push((l, T::I));
                    self.feat("locals");
                }
                if rng.chance(1, 4) && !self.words.is_empty() {
                    // call an earlier word
                    let (wn, wa, wr) = self.words[rng.below(self.words.len())].clone();
                    for _ in 0..wa {
                        self.push(rng, T::I, 2);
                        self.st.pop();
                    }
                    self.w(&wn);
                    if wr.is_some() {
                        self.w("drop");
                    }
                    self.feat("nested-call");
                }
                for _ in 0..rng.below(4) {
                    self.stmt(rng, 1);
                }
                if rng.chance(1, 4) {
                    let l = format!("{}t", name);
                    self.push(rng, T::I, 2);
                    self.st.pop();
                    self.w(&format!("local {} {} drop", l, l));
                }
                if rng.chance(1, 3) {
                    // a local (re)initialised on every pass of a loop with a value that changes from pass to pass,
                    // read back each time; also a variable store with a changing value
                    self.feat("loop-local");
                    let l = format!("{}v", name);
                    match rng.below(4) {
                        0 => self.w(&format!("{} 0 do I 10 * local {} {} {} + drop loop", rng.range(2, 4), l, l, l)),
                        1 => self.w(&format!("[ 4 5 6 ] foreach I local {} {} drop loop", l, l)),
                        2 => self.w(&format!("2 0 do 2 0 do I J + local {} {} drop loop loop", l, l)),
                        _ => self.w(&format!("7 local {} {} 1 + local {} {} drop", l, l, l, l)),
                    }
                }
                self.rebalance(rng, &[]);
                if let Some(t) = ret {
                    self.push(rng, t, 1);
                    self.st.pop();
                }
                self.w(";");
                self.in_def = false;
                self.locals.clear();
                self.st = saved_st;
                self.do_depth = saved_do;
                self.words.push((name, nargs, ret));
            }
            51 | 52 if !self.words.is_empty() => {
                let (wn, wa, wr) = self.words[rng.below(self.words.len())].clone();
                for _ in 0..wa {
                    self.push(rng, T::I, 2);
                }
                self.w(&wn);
                for _ in 0..wa {
                    self.st.pop();
                }
                if let Some(t) = wr {
                    self.st.push(t);
                }
                self.feat("call");
            }
            53 if depth == 0 && !self.in_def => {
                // global variable definition
                self.feat("var");
                let t = *rng.pick(&[T::I, T::V, T::M, T::B, T::S]);
                let name = self.name("g");
                self.push(rng, t, 1);
                self.w(&format!("var {}", name));
                self.st.pop();
                self.vars.push((name, t));
            }
            54 if self.vars.is_empty() && depth == 0 && !self.in_def => {
                self.feat("store-in-loop");
                let n = self.name("g");
                self.w(&format!("0 var {} 3 0 do I {} + ! {} loop", n, n, n));
                self.vars.push((n, T::I));
            }
            54 if !self.vars.is_empty() => {
                self.feat("store");
                let (n, t) = self.vars[rng.below(self.vars.len())].clone();
                self.push(rng, t, 1);
                self.w(&format!("! {}", n));
                self.st.pop();
            }
            55 if depth == 0 && !self.in_def => {
                // late binding: used before it is defined
                self.feat("late");
                let name = self.name("lt");
                let user = self.name("w");
                self.w(&format!("late {} : {} {} ; ", name, user, name));
                match rng.below(3) {
                    0 => self.w(&format!(": {} 7 ;", name)),
                    1 => self.w(&format!("5 var {}", name)),
                    _ => self.w(&format!(": {} [ 1 2 ] ;", name)),
                }
                self.w(&format!("{} drop {} drop", user, user));
            }
            56 if depth == 0 && !self.in_def => {
                self.feat("let");
                match rng.below(4) {
                    0 => {
                        let n = self.name("p");
                        self.push(rng, T::I, 1);
                        self.w(&format!("let {}", n));
                        self.st.pop();
                        self.vars.push((n, T::I));
                    }
                    1 => {
                        let (a, b) = (self.name("p"), self.name("p"));
                        self.w(&format!("[ 1 [ 2 3 ] 4 ] let [ {} [ 2 {} ] & rest{} ]", a, b, self.seq));
                        self.vars.push((a, T::I));
                        self.vars.push((b, T::I));
                    }
                    2 => {
                        let a = self.name("p");
                        self.w(&format!("{{ 10 \"k\" [ 1 2 ] \"v\" }} let {{ \"k\" {} \"v\" [ 1 2 ] }}", a));
                        self.vars.push((a, T::I));
                    }
                    _ => {
                        let (a, b) = (self.name("p"), self.name("p"));
                        self.w(&format!("100 ^{{ 5 \"five\" ^}} let ^ {{ \"five\" {} }} {}", a, b));
                        self.vars.push((a, T::I));
                        self.vars.push((b, T::I));
                    }
                }
            }
            57 if depth == 0 && !self.in_def => {
                self.feat("const");
                let c = self.name("K");
                self.w(&format!("#( {} const {} #)", rng.range(-5, 50), c));
                self.consts.push(c);
            }
            58 if depth == 0 && !self.in_def => {
                self.feat("enum");
                let e = self.name("E");
                let (a, b, c) = (self.name("EA"), self.name("EB"), self.name("EC"));
                self.w(&format!("enum {} : {} 5 = {} : {} endenum", e, a, b, c));
                self.consts.push(a);
                self.consts.push(b);
                self.consts.push(c);
            }
            59 => {
                self.feat("defined");
                self.w("defined dup");
                self.st.push(T::F);
            }
            60 => {
                self.feat("str>number");
                self.w(rng.pick(&["\"255\" str>number", "\"ff\" ^hex str>number", "\"1.5\" str>number"]));
                self.st.push(T::I);
            }
            61 => {
                self.feat("fmt");
                self.ensure(rng, &[T::I]);
                self.w(rng.pick(&["^hex", "^bin", "^oct", "false fmt/prefix", "true fmt/upcase", "true fmt/tags"]));
            }
            62 if self.allow_failing => {
                // rare deliberate failures: the monitors compare failing programs too
                self.feat("failing");
                match rng.below(6) {
                    0 => self.w("1 0 /"),
                    1 => self.w("\"boom\" error"),
                    2 => self.w("false assert"),
                    3 => self.w("1 2 assert-eq"),
                    4 => self.w("[ 1 ] 5 nth"),
                    _ => self.w("nil 1 +"),
                }
            }
            _ => {
                let t = *rng.pick(&[T::I, T::I, T::V, T::B]);
                self.push(rng, t, 0);
            }
        }
    }

    /// bring the abstract stack back to `target` (drop extras, push missing) so that branches agree
    fn rebalance(&mut self, rng: &mut Rng, target: &[T]) {
        while self.st.len() > target.len() {
            self.w("drop");
            self.st.pop();
        }
        if self.st.len() < target.len() || self.st.iter().zip(target).any(|(a, b)| a != b) {
            // types drifted or values were consumed: rebuild the tail
            let keep = self.st.iter().zip(target).take_while(|(a, b)| a == b).count();
            while self.st.len() > keep {
                self.w("drop");
                self.st.pop();
            }
            for t in &target[keep..] {
                self.push(rng, *t, 3);
            }
        }
    }

    pub fn program(&mut self, rng: &mut Rng) {
        let n = 3 + rng.below(12);
        for _ in 0..n {
            self.stmt(rng, 0);
            if self.budget <= 0 {
                break;
            }
        }
    }
}

/// a random program plus the binary input it expects (always provided)
pub fn gen_g2(rng: &mut Rng, budget: usize, allow_failing: bool) -> (String, Vec<u8>, Vec<&'static str>) {
    let mut g = G2::new(budget);
    g.allow_failing = allow_failing;
    g.program(rng);
    let n = 8 + rng.below(24);
    let input = rng.bytes(n);
    (g.src, input, g.features)
}
