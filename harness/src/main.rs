//! xv — worker process of the xeh runtime-monitoring harness.
//! usage: xv <Cxx> --seed S --shard I --nshards N --cases K [--only IDX] [--mode M] --out FILE
mod g1;
mod g1gen;
mod g1run;
mod g2;
mod mon;
mod render;
mod util;

use std::io::Write;
use util::*;

pub struct Args {
    pub prop: String,
    pub seed: u64,
    pub shard: u64,
    pub nshards: u64,
    pub cases: u64,
    pub only: Option<u64>,
    pub mode: String,
    pub out: String,
    pub tier: String,
    pub from: u64,
    /// case indexes not to run (the driver resumes a shard after a crash without the case that crashed)
    pub skip: Vec<u64>,
}

fn parse_args() -> Args {
    let v: Vec<String> = std::env::args().collect();
    if v.len() < 2 {
        eprintln!("usage: xv <Cxx> --seed S --shard I --nshards N --cases K [--only IDX] [--mode M] --out FILE");
        std::process::exit(2);
    }
    let mut a = Args {
        prop: v[1].clone(),
        seed: 1,
        shard: 0,
        nshards: 1,
        cases: 100,
        only: None,
        mode: String::new(),
        out: String::new(),
        tier: "quick".into(),
        from: 0,
        skip: vec![],
    };
    let mut i = 2;
    while i < v.len() {
        let val = v.get(i + 1).cloned().unwrap_or_default();
        match v[i].as_str() {
            "--seed" => a.seed = val.parse().unwrap_or(1),
            "--shard" => a.shard = val.parse().unwrap_or(0),
            "--nshards" => a.nshards = val.parse().unwrap_or(1),
            "--cases" => a.cases = val.parse().unwrap_or(100),
            "--only" => a.only = val.parse().ok(),
            "--mode" => a.mode = val,
            "--out" => a.out = val,
            "--tier" => a.tier = val,
            "--from" => a.from = val.parse().unwrap_or(0),
            "--skip" => a.skip = val.split(',').filter_map(|x| x.parse().ok()).collect(),
            other => {
                eprintln!("unknown argument {}", other);
                std::process::exit(2);
            }
        }
        i += 2;
    }
    a
}

static CASE_START_CPU_MS: std::sync::atomic::AtomicU64 = std::sync::atomic::AtomicU64::new(0);
static CASE_INDEX: std::sync::atomic::AtomicU64 = std::sync::atomic::AtomicU64::new(0);

fn cpu_ms() -> u64 {
    let mut ts = libc::timespec { tv_sec: 0, tv_nsec: 0 };
    unsafe {
        libc::clock_gettime(libc::CLOCK_PROCESS_CPUTIME_ID, &mut ts);
    }
    ts.tv_sec as u64 * 1000 + ts.tv_nsec as u64 / 1_000_000
}

/// A case that burns more than the CPU budget (process CPU time, not wall clock, so machine load does not matter) is
/// reported through <out>.hang and exit code 97; the driver decides per property whether that is a violation (an
/// instruction limit was set, so the interpreter must have stopped) or merely inconclusive.
#[cfg(not(miri))]
fn start_cpu_watchdog(out: String) {
    let limit_ms: u64 = std::env::var("XV_CASE_CPU_LIMIT_S").ok().and_then(|v| v.parse().ok()).unwrap_or(40) * 1000;
    std::thread::spawn(move || loop {
        std::thread::sleep(std::time::Duration::from_millis(400));
        let start = CASE_START_CPU_MS.load(std::sync::atomic::Ordering::Relaxed);
        if start == 0 {
            continue;
        }
        let used = cpu_ms().saturating_sub(start);
        if used > limit_ms {
            let idx = CASE_INDEX.load(std::sync::atomic::Ordering::Relaxed);
            if !out.is_empty() {
                let _ = std::fs::write(format!("{}.hang", out), format!("{} {}", idx, used));
            }
            eprintln!("xv: case {} used {} ms of CPU (budget {} ms): treated as a hang", idx, used, limit_ms);
            std::process::exit(97);
        }
    });
}

fn main() {
    let args = parse_args();
    if std::env::var("RUST_BACKTRACE").is_err() {
        std::env::set_var("RUST_BACKTRACE", "0");
    }
    install_panic_hook();
    #[cfg(not(miri))]
    set_mem_limit(3 << 30);
    #[cfg(not(miri))]
    start_cpu_watchdog(args.out.clone());
    let mut obs = Obs::default();
    let mut inflight = if args.out.is_empty() {
        None
    } else {
        std::fs::File::create(format!("{}.inflight", args.out)).ok()
    };
    let mut mon = match mon::create(&args) {
        Some(m) => m,
        None => {
            eprintln!("unknown property/mode {} {}", args.prop, args.mode);
            std::process::exit(2);
        }
    };
    let indices: Vec<u64> = match args.only {
        Some(i) => vec![i],
        None => (args.from..args.cases).map(|k| args.shard + k * args.nshards).collect(),
    };
    // checkpoints: what was observed so far, so that a later abort (out of memory, CPU budget) loses none of it.
    // Written at most every 2 s and so that writing takes under a tenth of the run time.
    let t_run = std::time::Instant::now();
    let mut last_ckpt = std::time::Instant::now();
    let mut ckpt_cost_ms: u128 = 0;
    let first_k = args.from;
    for (n_done, idx) in indices.into_iter().enumerate() {
        if args.skip.contains(&idx) {
            continue;
        }
        if !args.out.is_empty() && args.only.is_none() && n_done > 0 {
            let since = last_ckpt.elapsed().as_millis();
            if since > 2000 && since > 10 * ckpt_cost_ms {
                let t0 = std::time::Instant::now();
                let mut j = obs.to_json(&args.prop);
                if let J::Obj(m) = &mut j {
                    m.push(("next_k".to_string(), J::Int((first_k + n_done as u64) as i128)));
                }
                let tmp = format!("{}.ckpt.tmp", args.out);
                if std::fs::write(&tmp, j.to_string()).is_ok() {
                    let _ = std::fs::rename(&tmp, format!("{}.ckpt", args.out));
                }
                ckpt_cost_ms = t0.elapsed().as_millis();
                last_ckpt = std::time::Instant::now();
            }
        }
        if let Some(f) = inflight.as_mut() {
            use std::os::unix::fs::FileExt;
            let _ = f.write_at(format!("{:<20}", idx).as_bytes(), 0);
        }
        obs.cases += 1;
        CASE_INDEX.store(idx, std::sync::atomic::Ordering::Relaxed);
        CASE_START_CPU_MS.store(cpu_ms().max(1), std::sync::atomic::Ordering::Relaxed);
        let before = obs.violations.len();
        let t_case = cpu_ms();
        if let Some(b) = mon.boot_mut() {
            let rec = util::fnv1a(&idx.to_le_bytes()) & 4 != 0;
            b.set_recording_enabled(rec);
            if rec {
                obs.count("cases_with_recording_on");
            }
        }
        let r = catch(|| mon.run_case(idx, &mut obs));
        let took = cpu_ms().saturating_sub(t_case);
        if took > 1000 {
            obs.count("cases_over_1s_cpu");
            if std::env::var("XV_REPORT_SLOW").is_ok() {
                eprintln!("xv: slow case {} took {} ms: {}", idx, took, mon.describe(idx).chars().take(300).collect::<String>());
            }
        }
        obs.maxi("max_case_cpu_ms", took);
        if let Err((msg, loc)) = r {
            // a panic that escaped the monitor's own guards: xeh code panicked outside a guarded
            // call or the harness itself is broken; the location tells which.
            let loc = normalise_loc(&loc);
            let in_harness = loc.starts_with("xv:");
            obs.violation(Violation {
                class: if in_harness { "harness-panic".into() } else { "panic".into() },
                sig: format!("panic@{}:{}", loc, normalise_msg(&msg)),
                index: idx,
                case: mon.describe(idx),
                detail: format!("panic: {} at {}", msg, loc),
            });
        }
        if args.only.is_some() {
            for v in &obs.violations[before..] {
                println!("--- violation class={} sig={}\ncase: {}\n{}", v.class, v.sig, v.case, v.detail);
            }
            if obs.violations.len() == before {
                println!("case {} : no violation\n{}", idx, mon.describe(idx));
            }
        }
    }
    mon.finish(&mut obs);
    let js = obs.to_json(&args.prop).to_string();
    if args.out.is_empty() {
        if args.only.is_none() {
            println!("{}", js);
        }
    } else {
        let mut f = std::fs::File::create(&args.out).expect("create out");
        f.write_all(js.as_bytes()).expect("write out");
        let _ = std::fs::remove_file(format!("{}.inflight", args.out));
        let _ = std::fs::remove_file(format!("{}.ckpt", args.out));
    }
    let _ = t_run;
}
