// G1 generator (filled in later)
