//! G1 — structured programs with a reference semantics: AST, renderer (with token positions) and a
//! direct structural evaluator that never looks at bytecode.
use crate::util::Rng;
use std::collections::{BTreeMap, HashMap};

pub type NodeId = u32;

#[derive(Clone, Debug, PartialEq)]
pub enum Val {
    Int(i128),
    Str(String),
    Flag(bool),
    Nil,
}

impl Val {
    pub fn show(&self) -> String {
        match self {
            Val::Int(i) => format!("{}", i),
            Val::Str(s) => format!("{:?}", s),
            Val::Flag(b) => format!("{}", b),
            Val::Nil => "nil".into(),
        }
    }
    /// literal spelling in source
    pub fn literal(&self) -> String {
        match self {
            Val::Int(i) => format!("{}", i),
            Val::Str(s) => format!("\"{}\"", s),
            Val::Flag(b) => format!("{}", b),
            Val::Nil => "nil".into(),
        }
    }
}

#[derive(Clone, Debug)]
pub enum Kind {
    Lit(Val),
    Prim(&'static str),
    If(Vec<Node>, Option<Vec<Node>>),
    /// arms: (code before `of`, body); default code
    Case(Vec<(Vec<Node>, Vec<Node>)>, Vec<Node>),
    BeginUntil(Vec<Node>),
    /// (condition part, body)
    BeginWhile(Vec<Node>, Vec<Node>),
    BeginRepeat(Vec<Node>),
    Break,
    Do(Vec<Node>),
    /// 0 = I, 1 = J, 2 = K
    Idx(u8),
    Def(usize, String, Vec<Node>),
    Call(usize, String),
    Local(String),
    LocalGet(String),
    VarDef(String),
    VarSet(String),
    VarGet(String),
    /// a raw token the generator planted: (text, build-time error class it must raise)
    Bad(String, &'static str),
}

#[derive(Clone, Debug)]
pub struct Node {
    pub id: NodeId,
    pub kind: Kind,
    /// set by the generator on loops it built to never terminate
    pub infinite: bool,
}

impl Node {
    pub fn new(id: NodeId, kind: Kind) -> Node {
        Node { id, kind, infinite: false }
    }
}

// ------------------------------------------------------------------ rendering

#[derive(Clone, Debug, Default)]
pub struct Rendered {
    pub src: String,
    /// (node id, sub-token) -> (byte offset, token text)
    pub toks: HashMap<(NodeId, u8), (usize, String)>,
}

pub struct RenderOpts {
    pub fancy_ws: bool,
    pub comments: bool,
}

pub struct Renderer<'a> {
    pub out: Rendered,
    rng: &'a mut Rng,
    opts: RenderOpts,
}

impl<'a> Renderer<'a> {
    pub fn new(rng: &'a mut Rng, opts: RenderOpts) -> Renderer<'a> {
        Renderer { out: Rendered::default(), rng, opts }
    }

    fn sep(&mut self) {
        if self.out.src.is_empty() && !self.opts.fancy_ws {
            return;
        }
        if !self.opts.fancy_ws {
            self.out.src.push(' ');
            return;
        }
        match self.rng.below(14) {
            0 => self.out.src.push_str("\n"),
            1 => self.out.src.push_str("\r\n"),
            2 => self.out.src.push_str("\t"),
            3 => self.out.src.push_str("  "),
            4 => self.out.src.push_str(" \n  "),
            5 if self.opts.comments => {
                let c = ["\\ comment if then loop\n", "\\ caf\u{e9} \u{4e16}\u{754c}\r\n", "\\( multi\n line ; loop \\) "];
                self.out.src.push(' ');
                self.out.src.push_str(c[self.rng.below(c.len())]);
            }
            _ => self.out.src.push(' '),
        }
    }

    fn tok(&mut self, id: NodeId, sub: u8, text: &str) {
        self.sep();
        let off = self.out.src.len();
        self.out.src.push_str(text);
        self.out.toks.insert((id, sub), (off, text.to_string()));
    }

    pub fn nodes(&mut self, ns: &[Node]) {
        for n in ns {
            self.node(n);
        }
    }

    pub fn node(&mut self, n: &Node) {
        let id = n.id;
        match &n.kind {
            Kind::Lit(v) => self.tok(id, 0, &v.literal()),
            Kind::Prim(w) => self.tok(id, 0, w),
            Kind::If(t, e) => {
                self.tok(id, 0, "if");
                self.nodes(t);
                if let Some(e) = e {
                    self.tok(id, 1, "else");
                    self.nodes(e);
                }
                self.tok(id, 2, "then");
            }
            Kind::Case(arms, default) => {
                self.tok(id, 0, "case");
                for (k, (pre, body)) in arms.iter().enumerate() {
                    self.nodes(pre);
                    self.tok(id, 2 + 2 * k as u8, "of");
                    self.nodes(body);
                    self.tok(id, 3 + 2 * k as u8, "endof");
                }
                self.nodes(default);
                self.tok(id, 1, "endcase");
            }
            Kind::BeginUntil(b) => {
                self.tok(id, 0, "begin");
                self.nodes(b);
                self.tok(id, 1, "until");
            }
            Kind::BeginWhile(c, b) => {
                self.tok(id, 0, "begin");
                self.nodes(c);
                self.tok(id, 1, "while");
                self.nodes(b);
                self.tok(id, 2, "repeat");
            }
            Kind::BeginRepeat(b) => {
                self.tok(id, 0, "begin");
                self.nodes(b);
                self.tok(id, 1, "repeat");
            }
            Kind::Break => self.tok(id, 0, "break"),
            Kind::Do(b) => {
                self.tok(id, 0, "do");
                self.nodes(b);
                self.tok(id, 1, "loop");
            }
            Kind::Idx(k) => self.tok(id, 0, ["I", "J", "K"][*k as usize]),
            Kind::Def(_, name, body) => {
                self.tok(id, 0, ":");
                self.tok(id, 1, name);
                self.nodes(body);
                self.tok(id, 2, ";");
            }
            Kind::Call(_, name) => self.tok(id, 0, name),
            Kind::Local(name) => {
                self.tok(id, 0, "local");
                self.tok(id, 1, name);
            }
            Kind::LocalGet(name) => self.tok(id, 0, name),
            Kind::VarDef(name) => {
                self.tok(id, 0, "var");
                self.tok(id, 1, name);
            }
            Kind::VarSet(name) => {
                self.tok(id, 0, "!");
                self.tok(id, 1, name);
            }
            Kind::VarGet(name) => self.tok(id, 0, name),
            Kind::Bad(text, _) => {
                // several tokens: the last one is the token the failure is reported at
                let parts: Vec<&str> = text.split(' ').collect();
                for (i, t) in parts.iter().enumerate() {
                    self.tok(id, if i + 1 == parts.len() { 0 } else { 1 + i as u8 }, t);
                }
            }
        }
    }
}

pub fn render(ns: &[Node], rng: &mut Rng, fancy: bool) -> Rendered {
    let mut r = Renderer::new(rng, RenderOpts { fancy_ws: fancy, comments: fancy });
    r.nodes(ns);
    if fancy && r.rng.flip() {
        r.out.src.push_str(if r.rng.flip() { "\n" } else { " " });
    }
    r.out
}

// ------------------------------------------------------------------ reference evaluator

#[derive(Clone, Debug, PartialEq)]
pub struct Fail {
    pub class: &'static str,
    pub node: NodeId,
    pub sub: u8,
}

#[derive(Clone, Debug, Default)]
pub struct Outcome {
    pub fail: Option<Fail>,
    /// failure was raised while building (nothing executed)
    pub build_failure: bool,
    pub stack: Vec<Val>,
    pub vars: BTreeMap<String, Val>,
    pub out: String,
    pub steps: u64,
    /// fuel ran out (or call depth exceeded): no verdict unless `inside_infinite`
    pub exhausted: bool,
    /// when exhausted: an enclosing active loop was built as structurally infinite
    pub inside_infinite: bool,
    /// a local was read before the generator-guaranteed initialisation (harness bug guard)
    pub unspecified: bool,
    pub max_call_depth: usize,
    pub loop_indices_left: usize,
}

enum Ctl {
    Fail(Fail),
    Break,
    Exhausted,
}

type R = Result<(), Ctl>;

pub struct Evaluator<'a> {
    pub stack: Vec<Val>,
    loops: Vec<(i64, i64)>,
    frames: Vec<HashMap<NodeId, Val>>,
    /// one cell per global declaration (keyed by the declaring node)
    cells: HashMap<NodeId, Val>,
    res: HashMap<NodeId, NodeId>,
    pub out: String,
    pub steps: u64,
    fuel: u64,
    defs: HashMap<usize, &'a [Node]>,
    infinite_active: usize,
    unspecified: bool,
    max_call_depth: usize,
    max_depth: usize,
}

fn fail<T>(class: &'static str, node: NodeId, sub: u8) -> Result<T, Ctl> {
    Err(Ctl::Fail(Fail { class, node, sub }))
}

fn collect_defs<'a>(ns: &'a [Node], defs: &mut HashMap<usize, &'a [Node]>) {
    for n in ns {
        match &n.kind {
            Kind::Def(id, _, body) => {
                defs.insert(*id, body.as_slice());
                collect_defs(body, defs);
            }
            Kind::If(t, e) => {
                collect_defs(t, defs);
                if let Some(e) = e {
                    collect_defs(e, defs);
                }
            }
            Kind::Case(arms, d) => {
                for (p, b) in arms {
                    collect_defs(p, defs);
                    collect_defs(b, defs);
                }
                collect_defs(d, defs);
            }
            Kind::BeginUntil(b) | Kind::BeginRepeat(b) | Kind::Do(b) => collect_defs(b, defs),
            Kind::BeginWhile(c, b) => {
                collect_defs(c, defs);
                collect_defs(b, defs);
            }
            _ => {}
        }
    }
}

/// first build-time failure in source order, if any
fn first_bad(ns: &[Node]) -> Option<Fail> {
    for n in ns {
        let r = match &n.kind {
            Kind::Bad(_, class) => Some(Fail { class, node: n.id, sub: 0 }),
            Kind::Def(_, _, body) => first_bad(body),
            Kind::If(t, e) => first_bad(t).or_else(|| e.as_ref().and_then(|e| first_bad(e))),
            Kind::Case(arms, d) => {
                let mut r = None;
                for (p, b) in arms {
                    r = first_bad(p).or_else(|| first_bad(b));
                    if r.is_some() {
                        break;
                    }
                }
                r.or_else(|| first_bad(d))
            }
            Kind::BeginUntil(b) | Kind::BeginRepeat(b) | Kind::Do(b) => first_bad(b),
            Kind::BeginWhile(c, b) => first_bad(c).or_else(|| first_bad(b)),
            _ => None,
        };
        if r.is_some() {
            return r;
        }
    }
    None
}

/// Static well-formedness of an AST (used to keep shrunk programs inside the grammar the reference
/// defines): names are defined before use, `break` is inside a loop of the same definition, `var`
/// only at top level, `local` only inside a definition.
pub fn well_formed(prog: &[Node]) -> bool {
    struct Ck {
        vars: Vec<String>,
        defs: Vec<(usize, String)>,
        ok: bool,
    }
    fn walk(c: &mut Ck, ns: &[Node], top: bool, in_def: bool, loops: usize, locals: &mut Vec<String>) {
        for n in ns {
            match &n.kind {
                Kind::VarDef(name) => {
                    if !top {
                        c.ok = false;
                    }
                    c.vars.push(name.clone());
                }
                Kind::VarSet(name) | Kind::VarGet(name) => {
                    if !c.vars.contains(name) {
                        c.ok = false;
                    }
                }
                Kind::Call(id, name) => {
                    // the name must resolve (latest textual definition) to exactly this definition
                    if c.defs.iter().rev().find(|d| &d.1 == name).map(|d| d.0) != Some(*id) {
                        c.ok = false;
                    }
                }
                Kind::Local(name) => {
                    if !in_def {
                        c.ok = false;
                    }
                    locals.push(name.clone());
                }
                Kind::LocalGet(name) => {
                    if !locals.contains(name) {
                        c.ok = false;
                    }
                }
                Kind::Break => {
                    if loops == 0 {
                        c.ok = false;
                    }
                }
                Kind::Def(id, name, body) => {
                    c.defs.push((*id, name.clone()));
                    let mut l = Vec::new();
                    walk(c, body, false, true, 0, &mut l);
                }
                Kind::If(t, e) => {
                    walk(c, t, false, in_def, loops, locals);
                    if let Some(e) = e {
                        walk(c, e, false, in_def, loops, locals);
                    }
                }
                Kind::Case(arms, d) => {
                    for (p, b) in arms {
                        walk(c, p, false, in_def, loops, locals);
                        walk(c, b, false, in_def, loops, locals);
                    }
                    walk(c, d, false, in_def, loops, locals);
                }
                // break is rejected inside begin..until and before `while`
                Kind::BeginUntil(b) => walk(c, b, false, in_def, 0, locals),
                Kind::BeginWhile(cond, b) => {
                    walk(c, cond, false, in_def, 0, locals);
                    walk(c, b, false, in_def, loops + 1, locals);
                }
                Kind::BeginRepeat(b) | Kind::Do(b) => walk(c, b, false, in_def, loops + 1, locals),
                _ => {}
            }
        }
    }
    let mut c = Ck { vars: vec![], defs: vec![], ok: true };
    let mut l = Vec::new();
    walk(&mut c, prog, true, false, 0, &mut l);
    c.ok
}

/// Lexical binding as a direct reading of the source gives it: a use of a name refers to the latest declaration
/// of that name textually before it (locals: within the same definition; globals: anywhere earlier). Every
/// declaration is its own variable, so a re-declaration shadows instead of overwriting.
/// Returns use-node-id -> declaration-node-id, and name -> latest global declaration.
pub fn resolve(prog: &[Node]) -> (HashMap<NodeId, NodeId>, BTreeMap<String, NodeId>) {
    struct R {
        res: HashMap<NodeId, NodeId>,
        globals: Vec<(String, NodeId)>,
    }
    fn walk(r: &mut R, ns: &[Node], locals: &mut Vec<(String, NodeId)>) {
        for n in ns {
            match &n.kind {
                Kind::VarDef(name) => r.globals.push((name.clone(), n.id)),
                Kind::VarSet(name) | Kind::VarGet(name) => {
                    if let Some((_, d)) = r.globals.iter().rev().find(|(g, _)| g == name) {
                        r.res.insert(n.id, *d);
                    }
                }
                Kind::Local(name) => locals.push((name.clone(), n.id)),
                Kind::LocalGet(name) => {
                    if let Some((_, d)) = locals.iter().rev().find(|(g, _)| g == name) {
                        r.res.insert(n.id, *d);
                    }
                }
                Kind::Def(_, _, body) => {
                    let mut l = Vec::new();
                    walk(r, body, &mut l);
                }
                Kind::If(t, e) => {
                    walk(r, t, locals);
                    if let Some(e) = e {
                        walk(r, e, locals);
                    }
                }
                Kind::Case(arms, d) => {
                    for (p, b) in arms {
                        walk(r, p, locals);
                        walk(r, b, locals);
                    }
                    walk(r, d, locals);
                }
                Kind::BeginUntil(b) | Kind::BeginRepeat(b) | Kind::Do(b) => walk(r, b, locals),
                Kind::BeginWhile(c, b) => {
                    walk(r, c, locals);
                    walk(r, b, locals);
                }
                _ => {}
            }
        }
    }
    let mut r = R { res: HashMap::new(), globals: vec![] };
    let mut l = Vec::new();
    walk(&mut r, prog, &mut l);
    let mut latest = BTreeMap::new();
    for (name, id) in &r.globals {
        latest.insert(name.clone(), *id);
    }
    (r.res, latest)
}

impl<'a> Evaluator<'a> {
    pub fn run(prog: &'a [Node], fuel: u64, init_stack: Vec<Val>, _init_vars: BTreeMap<String, Val>) -> Outcome {
        let mut defs = HashMap::new();
        collect_defs(prog, &mut defs);
        let (res, latest) = resolve(prog);
        let final_vars = |cells: &HashMap<NodeId, Val>| -> BTreeMap<String, Val> {
            // variables get a heap cell (nil) at build time even when nothing runs; a name denotes its latest declaration
            latest.iter().map(|(name, id)| (name.clone(), cells.get(id).cloned().unwrap_or(Val::Nil))).collect()
        };
        let mut ev = Evaluator {
            stack: init_stack,
            loops: vec![],
            frames: vec![],
            cells: HashMap::new(),
            res,
            out: String::new(),
            steps: 0,
            fuel,
            defs,
            infinite_active: 0,
            unspecified: false,
            max_call_depth: 0,
            max_depth: 120,
        };
        let mut o = Outcome::default();
        if !well_formed(prog) {
            o.unspecified = true;
            return o;
        }
        if let Some(f) = first_bad(prog) {
            o.fail = Some(f);
            o.build_failure = true;
            o.stack = ev.stack;
            o.vars = BTreeMap::new();
            return o;
        }
        match ev.seq(prog) {
            Ok(()) => {}
            Err(Ctl::Fail(f)) => o.fail = Some(f),
            Err(Ctl::Break) => {
                // a break that escapes every loop cannot be generated (the compiler rejects it)
                o.unspecified = true;
            }
            Err(Ctl::Exhausted) => {
                o.exhausted = true;
                o.inside_infinite = ev.infinite_active > 0;
            }
        }
        o.stack = ev.stack;
        o.vars = final_vars(&ev.cells);
        o.out = ev.out;
        o.steps = ev.steps;
        o.unspecified |= ev.unspecified;
        o.max_call_depth = ev.max_call_depth;
        o.loop_indices_left = ev.loops.len();
        o
    }

    fn tick(&mut self) -> R {
        self.steps += 1;
        if self.steps > self.fuel {
            Err(Ctl::Exhausted)
        } else {
            Ok(())
        }
    }

    fn pop(&mut self, n: &Node, sub: u8) -> Result<Val, Ctl> {
        match self.stack.pop() {
            Some(v) => Ok(v),
            None => fail("underflow", n.id, sub),
        }
    }

    fn cond(&mut self, n: &Node, sub: u8) -> Result<bool, Ctl> {
        match self.pop(n, sub)? {
            Val::Nil => Ok(false),
            Val::Flag(b) => Ok(b),
            _ => fail("type", n.id, sub),
        }
    }

    fn seq(&mut self, ns: &[Node]) -> R {
        for n in ns {
            self.node(n)?;
        }
        Ok(())
    }

    fn node(&mut self, n: &Node) -> R {
        self.tick()?;
        match &n.kind {
            Kind::Lit(v) => self.stack.push(v.clone()),
            Kind::Prim(w) => self.prim(n, w)?,
            Kind::If(t, e) => {
                if self.cond(n, 0)? {
                    self.seq(t)?;
                } else if let Some(e) = e {
                    self.seq(e)?;
                }
            }
            Kind::Case(arms, default) => {
                let mut matched = false;
                for (k, (pre, body)) in arms.iter().enumerate() {
                    self.seq(pre)?;
                    let sub = 2 + 2 * k as u8;
                    let a = self.pop(n, sub)?;
                    let b = match self.stack.last() {
                        Some(b) => b.clone(),
                        None => return fail("underflow", n.id, sub),
                    };
                    if a == b {
                        self.stack.pop();
                        self.seq(body)?;
                        matched = true;
                        break;
                    }
                }
                if !matched {
                    self.seq(default)?;
                }
            }
            Kind::BeginUntil(b) => {
                if n.infinite {
                    self.infinite_active += 1;
                }
                loop {
                    match self.seq(b) {
                        Err(Ctl::Break) => break,
                        other => other?,
                    }
                    self.tick()?;
                    if self.cond(n, 1)? {
                        break;
                    }
                }
                if n.infinite {
                    self.infinite_active -= 1;
                }
            }
            Kind::BeginWhile(c, b) => {
                if n.infinite {
                    self.infinite_active += 1;
                }
                loop {
                    match self.seq(c) {
                        Err(Ctl::Break) => break,
                        other => other?,
                    }
                    self.tick()?;
                    if !self.cond(n, 1)? {
                        break;
                    }
                    match self.seq(b) {
                        Err(Ctl::Break) => break,
                        other => other?,
                    }
                }
                if n.infinite {
                    self.infinite_active -= 1;
                }
            }
            Kind::BeginRepeat(b) => {
                if n.infinite {
                    self.infinite_active += 1;
                }
                loop {
                    self.tick()?;
                    match self.seq(b) {
                        Err(Ctl::Break) => break,
                        other => other?,
                    }
                }
                if n.infinite {
                    self.infinite_active -= 1;
                }
            }
            Kind::Break => return Err(Ctl::Break),
            Kind::Do(b) => {
                let start = self.pop(n, 0)?;
                let limit = self.pop(n, 0)?;
                let start = match start {
                    Val::Int(i) => i as isize as i64,
                    _ => return fail("type", n.id, 0),
                };
                let limit = match limit {
                    Val::Int(i) => i as isize as i64,
                    _ => return fail("type", n.id, 0),
                };
                if start < limit {
                    self.loops.push((start, limit));
                    loop {
                        match self.seq(b) {
                            Err(Ctl::Break) => {
                                // Break pops the loop record
                                self.loops.pop();
                                break;
                            }
                            other => other?,
                        }
                        self.tick()?;
                        let l = self.loops.last_mut().expect("loop record");
                        l.0 += 1;
                        if l.0 >= l.1 {
                            self.loops.pop();
                            break;
                        }
                    }
                }
            }
            Kind::Idx(k) => {
                let len = self.loops.len();
                if (*k as usize) < len {
                    let v = self.loops[len - 1 - *k as usize].0;
                    self.stack.push(Val::Int(v as i128));
                } else {
                    return fail("loop-underflow", n.id, 0);
                }
            }
            Kind::Def(..) => {}
            Kind::Call(id, _) => {
                let body = match self.defs.get(id) {
                    Some(b) => *b,
                    None => {
                        self.unspecified = true;
                        return Ok(());
                    }
                };
                if self.frames.len() >= self.max_depth {
                    return Err(Ctl::Exhausted);
                }
                self.frames.push(HashMap::new());
                self.max_call_depth = self.max_call_depth.max(self.frames.len());
                // the loop stack is dynamic: a callee sees the caller's loops; a break cannot cross a call
                let r = self.seq(body);
                self.frames.pop();
                match r {
                    Err(Ctl::Break) => {
                        self.unspecified = true;
                    }
                    other => other?,
                }
                self.tick()?; // Ret
            }
            Kind::Local(name) => {
                let v = self.pop(n, 1)?;
                let _ = name;
                match self.frames.last_mut() {
                    Some(f) => {
                        f.insert(n.id, v);
                    }
                    None => self.unspecified = true,
                }
            }
            Kind::LocalGet(_) => {
                let decl = self.res.get(&n.id).copied();
                match decl.and_then(|d| self.frames.last().and_then(|f| f.get(&d))) {
                    Some(v) => self.stack.push(v.clone()),
                    None => {
                        // reading a local whose declaration did not execute: left unspecified
                        self.unspecified = true;
                        self.stack.push(Val::Nil);
                    }
                }
            }
            Kind::VarDef(_) => {
                let v = self.pop(n, 1)?;
                self.cells.insert(n.id, v);
            }
            Kind::VarSet(_) => {
                let v = self.pop(n, 1)?;
                match self.res.get(&n.id).copied() {
                    Some(d) => {
                        self.cells.insert(d, v);
                    }
                    None => self.unspecified = true,
                }
            }
            Kind::VarGet(_) => match self.res.get(&n.id).copied() {
                Some(d) => self.stack.push(self.cells.get(&d).cloned().unwrap_or(Val::Nil)),
                None => self.unspecified = true,
            },
            Kind::Bad(..) => self.unspecified = true,
        }
        Ok(())
    }

    fn int2(&mut self, n: &Node) -> Result<(i128, i128), Ctl> {
        let b = self.pop(n, 0)?;
        let a = self.pop(n, 0)?;
        match (a, b) {
            (Val::Int(a), Val::Int(b)) => Ok((a, b)),
            _ => fail("type", n.id, 0),
        }
    }

    fn flag2(&mut self, n: &Node) -> Result<(bool, bool), Ctl> {
        let b = self.pop(n, 0)?;
        let a = self.pop(n, 0)?;
        match (a, b) {
            (Val::Flag(a), Val::Flag(b)) => Ok((a, b)),
            _ => fail("type", n.id, 0),
        }
    }

    fn prim(&mut self, n: &Node, w: &str) -> R {
        match w {
            "dup" => match self.stack.last().cloned() {
                Some(v) => self.stack.push(v),
                None => return fail("underflow", n.id, 0),
            },
            "drop" => {
                self.pop(n, 0)?;
            }
            "swap" => {
                let len = self.stack.len();
                if len < 2 {
                    return fail("underflow", n.id, 0);
                }
                self.stack.swap(len - 1, len - 2);
            }
            "over" => {
                let len = self.stack.len();
                if len < 2 {
                    return fail("underflow", n.id, 0);
                }
                let v = self.stack[len - 2].clone();
                self.stack.push(v);
            }
            "rot" => {
                // xeh's rot exchanges the first and the third item
                let len = self.stack.len();
                if len < 3 {
                    return fail("underflow", n.id, 0);
                }
                self.stack.swap(len - 1, len - 3);
            }
            "depth" => {
                let d = self.stack.len() as i128;
                self.stack.push(Val::Int(d));
            }
            "+" => {
                let (a, b) = self.int2(n)?;
                self.stack.push(Val::Int(a.wrapping_add(b)));
            }
            "-" => {
                let (a, b) = self.int2(n)?;
                self.stack.push(Val::Int(a.wrapping_sub(b)));
            }
            "*" => {
                let (a, b) = self.int2(n)?;
                self.stack.push(Val::Int(a.wrapping_mul(b)));
            }
            "/" => {
                let (a, b) = self.int2(n)?;
                if b == 0 {
                    return fail("div-zero", n.id, 0);
                }
                self.stack.push(Val::Int(a.wrapping_div(b)));
            }
            "rem" => {
                let (a, b) = self.int2(n)?;
                if b == 0 {
                    return fail("div-zero", n.id, 0);
                }
                self.stack.push(Val::Int(a.wrapping_rem(b)));
            }
            "<" | "<=" | ">" | ">=" | "==" | "<>" => {
                let (a, b) = self.int2(n)?;
                let r = match w {
                    "<" => a < b,
                    "<=" => a <= b,
                    ">" => a > b,
                    ">=" => a >= b,
                    "==" => a == b,
                    _ => a != b,
                };
                self.stack.push(Val::Flag(r));
            }
            "and" | "or" => {
                let (a, b) = self.flag2(n)?;
                self.stack.push(Val::Flag(if w == "and" { a & b } else { a | b }));
            }
            "not" => match self.pop(n, 0)? {
                Val::Flag(b) => self.stack.push(Val::Flag(!b)),
                _ => return fail("type", n.id, 0),
            },
            "neg" => match self.pop(n, 0)? {
                Val::Int(a) => match a.checked_neg() {
                    Some(v) => self.stack.push(Val::Int(v)),
                    None => return fail("int-overflow", n.id, 0),
                },
                _ => return fail("type", n.id, 0),
            },
            "equal?" => {
                let a = self.pop(n, 0)?;
                let b = self.pop(n, 0)?;
                self.stack.push(Val::Flag(a == b));
            }
            "print" | "println" => {
                let v = self.pop(n, 0)?;
                self.out.push_str(&v.show());
                if w == "println" {
                    self.out.push('\n');
                }
            }
            _ => self.unspecified = true,
        }
        Ok(())
    }
}

// ------------------------------------------------------------------ structure statistics

/// skeleton of the construct tree (for shape hashing) and nesting pairs
pub fn skeleton(ns: &[Node], out: &mut String, pairs: &mut Vec<(&'static str, &'static str)>, parent: &'static str, depth: usize, max_depth: &mut usize) {
    for n in ns {
        let (name, kids): (&'static str, Vec<&[Node]>) = match &n.kind {
            Kind::If(t, None) => ("if", vec![t]),
            Kind::If(t, Some(e)) => ("ifelse", vec![t, e]),
            Kind::Case(arms, d) => {
                let mut k: Vec<&[Node]> = Vec::new();
                for (p, b) in arms {
                    k.push(p);
                    k.push(b);
                }
                k.push(d);
                ("case", k)
            }
            Kind::BeginUntil(b) => ("until", vec![b]),
            Kind::BeginWhile(c, b) => ("while", vec![c, b]),
            Kind::BeginRepeat(b) => ("repeat", vec![b]),
            Kind::Do(b) => ("do", vec![b]),
            Kind::Def(_, _, b) => ("def", vec![b]),
            Kind::Break => ("break", vec![]),
            Kind::Call(..) => ("call", vec![]),
            Kind::Local(_) => ("local", vec![]),
            _ => continue,
        };
        if matches!(name, "break" | "call" | "local") {
            out.push_str(name);
            out.push(' ');
            continue;
        }
        *max_depth = (*max_depth).max(depth + 1);
        pairs.push((parent, name));
        out.push_str(name);
        out.push('(');
        for k in kids {
            if k.is_empty() {
                out.push('0');
            }
            skeleton(k, out, pairs, name, depth + 1, max_depth);
            out.push('|');
        }
        out.push(')');
    }
}
