//! Harness-side deep rendering of xeh values: type-faithful (ints vs reals), shows tags at every depth,
//! bit-strings rendered bit by bit (so storage never matters).
use xeh::prelude::*;

pub fn bits_of(bs: &Xbitstr) -> String {
    let mut s = String::with_capacity(bs.len() + 2);
    for b in bs.bits() {
        s.push(if b == 1 { '1' } else { '0' });
    }
    s
}

pub fn show(c: &Cell) -> String {
    let mut s = String::new();
    show_into(c, true, &mut s);
    s
}

/// rendering that ignores tags at every depth
pub fn show_untagged(c: &Cell) -> String {
    let mut s = String::new();
    show_into(c, false, &mut s);
    s
}

fn show_into(c: &Cell, tags: bool, out: &mut String) {
    use std::fmt::Write;
    match c {
        Cell::Nil => out.push_str("nil"),
        Cell::Flag(b) => out.push_str(if *b { "true" } else { "false" }),
        Cell::Int(i) => write!(out, "{}", i).unwrap(),
        Cell::Real(r) => write!(out, "r{:016x}", r.to_bits()).unwrap(),
        Cell::Str(s) => write!(out, "{:?}", s.as_str()).unwrap(),
        Cell::Vector(v) => {
            out.push('[');
            for x in v.iter() {
                out.push(' ');
                show_into(x, tags, out);
            }
            out.push_str(" ]");
        }
        Cell::Map(m) => {
            out.push('{');
            for (k, v) in m.iter() {
                out.push(' ');
                show_into(v, tags, out);
                out.push(' ');
                show_into(k, tags, out);
                out.push(',');
            }
            out.push_str(" }");
        }
        Cell::Fun(f) => write!(out, "fun:{:?}", f).unwrap(),
        Cell::Bitstr(b) => {
            out.push('|');
            out.push_str(&bits_of(b));
            out.push('|');
        }
        Cell::AnyRc(_) => out.push_str("any"),
        Cell::WithTag(_) => {
            show_into(c.value(), tags, out);
            if tags {
                out.push_str("^{");
                if let Some(t) = c.tags() {
                    for (k, v) in t.iter() {
                        out.push(' ');
                        show_into(v, tags, out);
                        out.push(' ');
                        show_into(k, tags, out);
                        out.push(',');
                    }
                }
                out.push_str(" }");
            }
        }
    }
}

pub fn show_vec(v: &[Cell]) -> String {
    let mut s = String::new();
    for (i, x) in v.iter().enumerate() {
        if i > 0 {
            s.push(' ');
        }
        s.push_str(&show(x));
    }
    s
}

/// error class used when comparing failures across executions
pub fn err_class(e: &Xerr) -> String {
    match e {
        Xerr::UnknownWord(_) => "unknown-word".into(),
        Xerr::ParseError { .. } => "parse".into(),
        Xerr::StrDecodeError { .. } => "str-decode".into(),
        Xerr::ExpectingName => "expecting-name".into(),
        Xerr::ExpectingLiteral => "expecting-literal".into(),
        Xerr::ControlFlowError { .. } => "control-flow".into(),
        Xerr::IntegerOverflow => "int-overflow".into(),
        Xerr::DivisionByZero => "div-zero".into(),
        Xerr::StackUnderflow => "underflow".into(),
        Xerr::ReturnStackUnderflow => "ret-underflow".into(),
        Xerr::LoopStackUnderflow => "loop-underflow".into(),
        Xerr::TypeError | Xerr::TypeErrorMsg { .. } | Xerr::TypeNotSupported { .. } => "type".into(),
        Xerr::IOError { .. } => "io".into(),
        Xerr::OutOfBounds { .. } => "out-of-bounds".into(),
        Xerr::AssertFailed | Xerr::AssertEqFailed { .. } => "assert".into(),
        Xerr::InternalError => "internal".into(),
        Xerr::ReadError { .. } => "read".into(),
        Xerr::SeekError { .. } => "seek".into(),
        Xerr::MatchError { .. } => "match".into(),
        Xerr::ToBytestrError(_) => "to-bytestr".into(),
        Xerr::BitstrSliceError(_) => "bitstr-slice".into(),
        Xerr::ErrorMsg(m) => {
            let m = m.as_str();
            if m.starts_with("insn limit") {
                "limit-insn".into()
            } else if m.starts_with("stack limit") {
                "limit-stack".into()
            } else if m.starts_with("heap limit") {
                "limit-heap".into()
            } else if m.starts_with("local variable index") {
                "local-oob".into()
            } else {
                format!("msg:{}", crate::util::normalise_msg(m))
            }
        }
        Xerr::UserError(_) => "user".into(),
        Xerr::Exit(_) => "exit".into(),
    }
}

/// full error rendering incl. payload (tags visible)
pub fn show_err(e: &Xerr) -> String {
    match e {
        Xerr::TypeErrorMsg { val, msg } => format!("type[{}]({})", msg, show(val)),
        Xerr::TypeNotSupported { val } => format!("type-ns({})", show(val)),
        Xerr::AssertEqFailed { a, b } => format!("assert-eq({}, {})", show(a), show(b)),
        Xerr::UserError(v) => format!("user({})", show(v)),
        Xerr::SeekError { src, offset } => format!("seek({}, {})", bits_of(src), offset),
        Xerr::MatchError { src, expect, fail_pos } => {
            format!("match({}, {}, {})", bits_of(src), bits_of(expect), fail_pos)
        }
        Xerr::ToBytestrError(b) => format!("to-bytestr({})", bits_of(b)),
        Xerr::BitstrSliceError(b) => format!("bitstr-slice({})", bits_of(b)),
        other => format!("{:?}", other),
    }
}
